package main

// Claims descriptions: one value of the Lean `Model.Claims` type, its line
// syntax, the real Go struct built from it, and the reverse direction.

import (
	"fmt"
	"strconv"
	"strings"

	cbor "github.com/fxamacker/cbor/v2"
	"github.com/veraison/eat"
	psa "github.com/veraison/psatoken"
)

type CompDesc struct {
	Nil                   bool
	MT, MV, Ver, SID, MD *[]byte
}

const (
	SwNilIface = 0
	SwNilSlice = 1
	SwList     = 2
)

type ClaimsDesc struct {
	P           int
	Canon       string
	Prof        *string
	ProfInvalid bool // profile 2: a zero eat.Profile{}
	CID         *int32
	LC          *uint16
	Impl, Boot  *[]byte
	Cert        *string
	SwKind      int
	Sw          []CompDesc
	NoSw        *uint
	Nonce       *[][]byte // profile 1: exactly one element
	Inst        *[]byte
	VSI         *string
}

func xo(b *[]byte) string {
	if b == nil {
		return "_"
	}
	return "x" + hx(*b)
}
func xs(s *string) string {
	if s == nil {
		return "_"
	}
	return "x" + hx([]byte(*s))
}

func (c CompDesc) String() string {
	if c.Nil {
		return "N"
	}
	return "(" + xo(c.MT) + "," + xo(c.MV) + "," + xo(c.Ver) + "," + xo(c.SID) + "," + xo(c.MD) + ")"
}

func (d *ClaimsDesc) Line() string {
	var sb strings.Builder
	fmt.Fprintf(&sb, "p=%d canon=x%s", d.P, hx([]byte(d.Canon)))
	switch {
	case d.ProfInvalid:
		sb.WriteString(" prof=inv")
	case d.Prof == nil:
		sb.WriteString(" prof=_")
	default:
		sb.WriteString(" prof=s" + hx([]byte(*d.Prof)))
	}
	if d.CID == nil {
		sb.WriteString(" cid=_")
	} else {
		fmt.Fprintf(&sb, " cid=%d", *d.CID)
	}
	if d.LC == nil {
		sb.WriteString(" lc=_")
	} else {
		fmt.Fprintf(&sb, " lc=%d", *d.LC)
	}
	sb.WriteString(" impl=" + xo(d.Impl) + " boot=" + xo(d.Boot) + " cert=" + xs(d.Cert))
	switch d.SwKind {
	case SwNilIface:
		sb.WriteString(" sw=nil")
	case SwNilSlice:
		sb.WriteString(" sw=none")
	default:
		parts := make([]string, len(d.Sw))
		for i, c := range d.Sw {
			parts[i] = c.String()
		}
		sb.WriteString(" sw=[" + strings.Join(parts, ";") + "]")
	}
	if d.NoSw == nil {
		sb.WriteString(" nosw=_")
	} else {
		fmt.Fprintf(&sb, " nosw=%d", *d.NoSw)
	}
	if d.Nonce == nil {
		sb.WriteString(" nonce=_")
	} else {
		parts := make([]string, len(*d.Nonce))
		for i, n := range *d.Nonce {
			parts[i] = "x" + hx(n)
		}
		sb.WriteString(" nonce=[" + strings.Join(parts, ",") + "]")
	}
	sb.WriteString(" inst=" + xo(d.Inst) + " vsi=" + xs(d.VSI))
	return sb.String()
}

func cpb(b *[]byte) *[]byte {
	if b == nil {
		return nil
	}
	c := append([]byte{}, *b...)
	return &c
}
func cps(b *[]byte) *string {
	if b == nil {
		return nil
	}
	s := string(*b)
	return &s
}
func spb(s *string) *[]byte {
	if s == nil {
		return nil
	}
	b := []byte(*s)
	return &b
}

func (c CompDesc) Build() *psa.SwComponent {
	if c.Nil {
		return nil
	}
	return &psa.SwComponent{MeasurementType: cps(c.MT), MeasurementValue: cpb(c.MV), Version: cps(c.Ver),
		SignerID: cpb(c.SID), MeasurementDesc: cps(c.MD)}
}

func compDescOf(sc *psa.SwComponent) CompDesc {
	if sc == nil {
		return CompDesc{Nil: true}
	}
	return CompDesc{MT: spb(sc.MeasurementType), MV: cpb(sc.MeasurementValue), Ver: spb(sc.Version),
		SID: cpb(sc.SignerID), MD: spb(sc.MeasurementDesc)}
}

func (d *ClaimsDesc) buildSw() psa.ISwComponents {
	switch d.SwKind {
	case SwNilIface:
		return nil
	case SwNilSlice:
		return psa.VerifNewSwComponents(nil)
	}
	vals := make([]*psa.SwComponent, len(d.Sw))
	for i, c := range d.Sw {
		vals[i] = c.Build()
	}
	return psa.VerifNewSwComponents(vals)
}

// rawNonce builds an eat.Nonce holding arbitrary byte strings (also ones Add rejects).
func rawNonce(vals [][]byte) *eat.Nonce {
	n := eat.Nonce{}
	if len(vals) == 1 {
		b, _ := cbor.Marshal(vals[0])
		if err := n.UnmarshalCBOR(b); err != nil {
			panic(err)
		}
		return &n
	}
	b, _ := cbor.Marshal(vals)
	if err := n.UnmarshalCBOR(b); err != nil {
		panic(err)
	}
	if len(vals) == 0 {
		n = eat.Nonce{}
	}
	return &n
}

// Build constructs the real claims-set (no validation, as after a decode).
func (d *ClaimsDesc) Build() psa.IClaims {
	if d.P == 1 {
		c := &psa.P1Claims{CanonicalProfile: d.Canon}
		if d.Prof != nil {
			s := *d.Prof
			c.Profile = &s
		}
		if d.CID != nil {
			v := *d.CID
			c.ClientID = &v
		}
		if d.LC != nil {
			v := *d.LC
			c.SecurityLifeCycle = &v
		}
		c.ImplID, c.BootSeed, c.InstID = cpb(d.Impl), cpb(d.Boot), cpb(d.Inst)
		if d.Cert != nil {
			s := *d.Cert
			c.CertificationReference = &s
		}
		c.SwComponents = d.buildSw()
		if d.NoSw != nil {
			v := *d.NoSw
			c.NoSwMeasurements = &v
		}
		if d.Nonce != nil {
			v := append([]byte{}, (*d.Nonce)[0]...)
			c.Nonce = &v
		}
		if d.VSI != nil {
			s := *d.VSI
			c.VSI = &s
		}
		return c
	}
	c := &psa.P2Claims{CanonicalProfile: d.Canon}
	if d.ProfInvalid {
		c.Profile = &eat.Profile{}
	} else if d.Prof != nil {
		p := eat.Profile{}
		if err := p.Set(*d.Prof); err != nil {
			panic("generator: profile not representable: " + *d.Prof)
		}
		c.Profile = &p
	}
	if d.CID != nil {
		v := *d.CID
		c.ClientID = &v
	}
	if d.LC != nil {
		v := *d.LC
		c.SecurityLifeCycle = &v
	}
	c.ImplID, c.BootSeed = cpb(d.Impl), cpb(d.Boot)
	if d.Inst != nil {
		u := eat.UEID(append([]byte{}, *d.Inst...))
		c.InstID = &u
	}
	if d.Cert != nil {
		s := *d.Cert
		c.CertificationReference = &s
	}
	c.SwComponents = d.buildSw()
	if d.Nonce != nil {
		c.Nonce = rawNonce(*d.Nonce)
	}
	if d.VSI != nil {
		s := *d.VSI
		c.VSI = &s
	}
	return c
}

// DescOf reads a real claims-set back into a description. ok=false when the
// value is outside the model's domain (foreign container type, OID profile…).
func DescOf(ic psa.IClaims) (d ClaimsDesc, ok bool) {
	swOf := func(s psa.ISwComponents) bool {
		if s == nil {
			d.SwKind = SwNilIface
			return true
		}
		vals, ok := psa.VerifSwComponentsValues(s)
		if !ok {
			return false
		}
		if vals == nil {
			d.SwKind = SwNilSlice
			return true
		}
		d.SwKind = SwList
		d.Sw = make([]CompDesc, len(vals))
		for i, v := range vals {
			d.Sw[i] = compDescOf(v)
		}
		return true
	}
	switch c := ic.(type) {
	case *psa.P1Claims:
		d.P, d.Canon = 1, c.CanonicalProfile
		if c.Profile != nil {
			s := *c.Profile
			d.Prof = &s
		}
		d.CID, d.LC = c.ClientID, c.SecurityLifeCycle
		d.Impl, d.Boot, d.Inst = cpb(c.ImplID), cpb(c.BootSeed), cpb(c.InstID)
		d.Cert, d.VSI = c.CertificationReference, c.VSI
		if !swOf(c.SwComponents) {
			return d, false
		}
		d.NoSw = c.NoSwMeasurements
		if c.Nonce != nil {
			l := [][]byte{append([]byte{}, *c.Nonce...)}
			d.Nonce = &l
		}
		return d, true
	case *psa.P2Claims:
		d.P, d.Canon = 2, c.CanonicalProfile
		if c.Profile != nil {
			if !c.Profile.IsURI() && !c.Profile.IsOID() {
				d.ProfInvalid = true
			} else if c.Profile.IsOID() {
				return d, false
			} else {
				s, _ := c.Profile.Get()
				d.Prof = &s
			}
		}
		d.CID, d.LC = c.ClientID, c.SecurityLifeCycle
		d.Impl, d.Boot = cpb(c.ImplID), cpb(c.BootSeed)
		if c.InstID != nil {
			b := append([]byte{}, (*c.InstID)...)
			d.Inst = &b
		}
		d.Cert, d.VSI = c.CertificationReference, c.VSI
		if !swOf(c.SwComponents) {
			return d, false
		}
		if c.Nonce != nil {
			l := make([][]byte, c.Nonce.Len())
			for i := range l {
				l[i] = append([]byte{}, c.Nonce.GetI(i)...)
			}
			d.Nonce = &l
		}
		return d, true
	}
	return d, false
}

// ---- observation table (validate verdict + the ten getters) ----

func fmtComps(scs []psa.ISwComponent) string {
	if scs == nil {
		return "nil"
	}
	parts := make([]string, len(scs))
	for i, sc := range scs {
		p, ok := sc.(*psa.SwComponent)
		if !ok {
			parts[i] = "?"
			continue
		}
		parts[i] = compDescOf(p).String()
	}
	return "[" + strings.Join(parts, ";") + "]"
}

type getRes struct {
	Name  string
	Val   string // formatted value when Err == nil
	Err   error
	Panic bool
}

func (g getRes) String() string {
	if g.Panic {
		return "panic"
	}
	if g.Err != nil {
		return fmtErr(g.Err)
	}
	return "ok:" + g.Val
}

var getterNames = []string{"profile", "clientId", "lifecycle", "implId", "bootSeed", "certRef", "sw", "nonce", "instId", "vsi"}

func getAll(c psa.IClaims) []getRes {
	out := make([]getRes, 10)
	call := func(i int, f func() (string, error)) {
		out[i].Name = getterNames[i]
		p, _ := safely(func() { out[i].Val, out[i].Err = f() })
		out[i].Panic = p
	}
	call(0, func() (string, error) { v, e := c.GetProfile(); return "x" + hx([]byte(v)), e })
	call(1, func() (string, error) { v, e := c.GetClientID(); return strconv.Itoa(int(v)), e })
	call(2, func() (string, error) { v, e := c.GetSecurityLifeCycle(); return strconv.Itoa(int(v)), e })
	call(3, func() (string, error) { v, e := c.GetImplID(); return "x" + hx(v), e })
	call(4, func() (string, error) { v, e := c.GetBootSeed(); return "x" + hx(v), e })
	call(5, func() (string, error) { v, e := c.GetCertificationReference(); return "x" + hx([]byte(v)), e })
	call(6, func() (string, error) { v, e := c.GetSoftwareComponents(); return fmtComps(v), e })
	call(7, func() (string, error) { v, e := c.GetNonce(); return "x" + hx(v), e })
	call(8, func() (string, error) { v, e := c.GetInstID(); return "x" + hx(v), e })
	call(9, func() (string, error) { v, e := c.GetVSI(); return "x" + hx([]byte(v)), e })
	return out
}

type obsRes struct {
	VErr   error
	VPanic bool
	G      []getRes
}

func observe(c psa.IClaims) obsRes {
	var o obsRes
	o.VPanic, _ = safely(func() { o.VErr = c.Validate() })
	o.G = getAll(c)
	return o
}

func (o obsRes) String() string {
	var sb strings.Builder
	if o.VPanic {
		sb.WriteString("v=panic")
	} else {
		sb.WriteString("v=" + fmtErr(o.VErr))
	}
	for _, g := range o.G {
		sb.WriteString(" " + g.Name + "=" + g.String())
	}
	return sb.String()
}
