package main

// Claims descriptions: one value of the Lean `Model.Claims` type, its line
// syntax, the real Go struct built from it, and the reverse direction.

import (
	"fmt"
	"reflect"
	"strconv"
	"strings"

	cbor "github.com/fxamacker/cbor/v2"
	"github.com/veraison/eat"
	psa "github.com/veraison/psatoken"
)

type CompDesc struct {
	Nil                  bool
	MT, MV, Ver, SID, MD *[]byte
}

const (
	SwNilIface = 0
	SwNilSlice = 1
	SwList     = 2
)

type ClaimsDesc struct {
	P           int
	Canon       string
	Prof        *string
	ProfInvalid bool // profile 2: a zero eat.Profile{}
	CID         *int32
	LC          *uint16
	Impl, Boot  *[]byte
	Cert        *string
	SwKind      int
	Sw          []CompDesc
	NoSw        *uint
	Nonce       *[][]byte // profile 1: exactly one element
	Inst        *[]byte
	VSI         *string
}

func xo(b *[]byte) string {
	if b == nil {
		return "_"
	}
	return "x" + hx(*b)
}
func xs(s *string) string {
	if s == nil {
		return "_"
	}
	return "x" + hx([]byte(*s))
}

func (c CompDesc) String() string {
	if c.Nil {
		return "N"
	}
	return "(" + xo(c.MT) + "," + xo(c.MV) + "," + xo(c.Ver) + "," + xo(c.SID) + "," + xo(c.MD) + ")"
}

func (d *ClaimsDesc) Line() string {
	var sb strings.Builder
	fmt.Fprintf(&sb, "p=%d canon=x%s", d.P, hx([]byte(d.Canon)))
	switch {
	case d.ProfInvalid:
		sb.WriteString(" prof=inv")
	case d.Prof == nil:
		sb.WriteString(" prof=_")
	default:
		sb.WriteString(" prof=s" + hx([]byte(*d.Prof)))
	}
	if d.CID == nil {
		sb.WriteString(" cid=_")
	} else {
		fmt.Fprintf(&sb, " cid=%d", *d.CID)
	}
	if d.LC == nil {
		sb.WriteString(" lc=_")
	} else {
		fmt.Fprintf(&sb, " lc=%d", *d.LC)
	}
	sb.WriteString(" impl=" + xo(d.Impl) + " boot=" + xo(d.Boot) + " cert=" + xs(d.Cert))
	switch d.SwKind {
	case SwNilIface:
		sb.WriteString(" sw=nil")
	case SwNilSlice:
		sb.WriteString(" sw=none")
	default:
		parts := make([]string, len(d.Sw))
		for i, c := range d.Sw {
			parts[i] = c.String()
		}
		sb.WriteString(" sw=[" + strings.Join(parts, ";") + "]")
	}
	if d.NoSw == nil {
		sb.WriteString(" nosw=_")
	} else {
		fmt.Fprintf(&sb, " nosw=%d", *d.NoSw)
	}
	if d.Nonce == nil {
		sb.WriteString(" nonce=_")
	} else {
		parts := make([]string, len(*d.Nonce))
		for i, n := range *d.Nonce {
			parts[i] = "x" + hx(n)
		}
		sb.WriteString(" nonce=[" + strings.Join(parts, ",") + "]")
	}
	sb.WriteString(" inst=" + xo(d.Inst) + " vsi=" + xs(d.VSI))
	return sb.String()
}

func cpb(b *[]byte) *[]byte {
	if b == nil {
		return nil
	}
	c := append([]byte{}, *b...)
	return &c
}
func cps(b *[]byte) *string {
	if b == nil {
		return nil
	}
	s := string(*b)
	return &s
}
func spb(s *string) *[]byte {
	if s == nil {
		return nil
	}
	b := []byte(*s)
	return &b
}

// The harness reaches struct fields by name through reflection, so that it still builds (and
// can exhibit a failing input) when a field's Go type changes in /repo.

// setField stores val (converted to the field's pointer element type) in the pointer field
// `name` of struct value sv; absent fields are reported.
func setField(sv reflect.Value, name string, val interface{}) {
	f := sv.FieldByName(name)
	if !f.IsValid() {
		panic("harness: field " + name + " no longer exists in " + sv.Type().String())
	}
	v := reflect.ValueOf(val)
	if f.Kind() == reflect.Ptr {
		et := f.Type().Elem()
		if !v.Type().ConvertibleTo(et) {
			panic("harness: cannot store " + v.Type().String() + " in " + name + " of type " + f.Type().String())
		}
		p := reflect.New(et)
		p.Elem().Set(v.Convert(et))
		f.Set(p)
		return
	}
	f.Set(v.Convert(f.Type()))
}

// getPtrField reads pointer field `name`: nil -> (zero, false).
func getPtrField(sv reflect.Value, name string) (reflect.Value, bool) {
	f := sv.FieldByName(name)
	if !f.IsValid() {
		panic("harness: field " + name + " no longer exists in " + sv.Type().String())
	}
	if f.Kind() == reflect.Ptr {
		if f.IsNil() {
			return reflect.Value{}, false
		}
		return f.Elem(), true
	}
	return f, true
}

func fieldBytes(sv reflect.Value, name string) *[]byte {
	v, ok := getPtrField(sv, name)
	if !ok {
		return nil
	}
	var b []byte
	if v.Kind() == reflect.String {
		b = []byte(v.String())
	} else {
		b = append([]byte{}, v.Bytes()...)
	}
	return &b
}

func fieldString(sv reflect.Value, name string) *string {
	b := fieldBytes(sv, name)
	if b == nil {
		return nil
	}
	s := string(*b)
	return &s
}

func (c CompDesc) Build() *psa.SwComponent {
	if c.Nil {
		return nil
	}
	sc := &psa.SwComponent{}
	sv := reflect.ValueOf(sc).Elem()
	set := func(name string, b *[]byte, text bool) {
		if b == nil {
			return
		}
		if text {
			setField(sv, name, string(*b))
		} else {
			setField(sv, name, append([]byte{}, *b...))
		}
	}
	set("MeasurementType", c.MT, true)
	set("MeasurementValue", c.MV, false)
	set("Version", c.Ver, true)
	set("SignerID", c.SID, false)
	set("MeasurementDesc", c.MD, true)
	return sc
}

func compDescOf(sc *psa.SwComponent) CompDesc {
	if sc == nil {
		return CompDesc{Nil: true}
	}
	sv := reflect.ValueOf(sc).Elem()
	return CompDesc{MT: fieldBytes(sv, "MeasurementType"), MV: fieldBytes(sv, "MeasurementValue"), Ver: fieldBytes(sv, "Version"),
		SID: fieldBytes(sv, "SignerID"), MD: fieldBytes(sv, "MeasurementDesc")}
}

func (d *ClaimsDesc) buildSw() psa.ISwComponents {
	switch d.SwKind {
	case SwNilIface:
		return nil
	case SwNilSlice:
		return psa.VerifNewSwComponents(nil)
	}
	vals := make([]*psa.SwComponent, len(d.Sw))
	for i, c := range d.Sw {
		vals[i] = c.Build()
	}
	return psa.VerifNewSwComponents(vals)
}

// rawNonce builds an eat.Nonce holding arbitrary byte strings (also ones Add rejects).
func rawNonce(vals [][]byte) *eat.Nonce {
	n := eat.Nonce{}
	if len(vals) == 1 {
		b, _ := cbor.Marshal(vals[0])
		if err := n.UnmarshalCBOR(b); err != nil {
			panic(err)
		}
		return &n
	}
	b, _ := cbor.Marshal(vals)
	if err := n.UnmarshalCBOR(b); err != nil {
		panic(err)
	}
	if len(vals) == 0 {
		n = eat.Nonce{}
	}
	return &n
}

// Build constructs the real claims-set (no validation, as after a decode).
func (d *ClaimsDesc) Build() psa.IClaims {
	var c psa.IClaims
	if d.P == 1 {
		c = &psa.P1Claims{}
	} else {
		c = &psa.P2Claims{}
	}
	sv := reflect.ValueOf(c).Elem()
	setField(sv, "CanonicalProfile", d.Canon)
	if d.P == 1 {
		if d.Prof != nil {
			setField(sv, "Profile", *d.Prof)
		}
	} else if d.ProfInvalid {
		sv.FieldByName("Profile").Set(reflect.ValueOf(&eat.Profile{}))
	} else if d.Prof != nil {
		p := eat.Profile{}
		if err := p.Set(*d.Prof); err != nil {
			panic("generator: profile not representable: " + *d.Prof)
		}
		sv.FieldByName("Profile").Set(reflect.ValueOf(&p))
	}
	if d.CID != nil {
		setField(sv, "ClientID", *d.CID)
	}
	if d.LC != nil {
		setField(sv, "SecurityLifeCycle", *d.LC)
	}
	if d.Impl != nil {
		setField(sv, "ImplID", append([]byte{}, *d.Impl...))
	}
	if d.Boot != nil {
		setField(sv, "BootSeed", append([]byte{}, *d.Boot...))
	}
	if d.Inst != nil {
		setField(sv, "InstID", append([]byte{}, *d.Inst...))
	}
	if d.Cert != nil {
		setField(sv, "CertificationReference", *d.Cert)
	}
	if d.VSI != nil {
		setField(sv, "VSI", *d.VSI)
	}
	if sw := d.buildSw(); sw != nil {
		sv.FieldByName("SwComponents").Set(reflect.ValueOf(sw))
	}
	if d.P == 1 {
		if d.NoSw != nil {
			setField(sv, "NoSwMeasurements", *d.NoSw)
		}
		if d.Nonce != nil {
			setField(sv, "Nonce", append([]byte{}, (*d.Nonce)[0]...))
		}
	} else if d.Nonce != nil {
		sv.FieldByName("Nonce").Set(reflect.ValueOf(rawNonce(*d.Nonce)))
	}
	return c
}

// DescOf reads a real claims-set back into a description. ok=false when the
// value is outside the model's domain (foreign container type, OID profile…).
func DescOf(ic psa.IClaims) (d ClaimsDesc, ok bool) {
	var sv reflect.Value
	switch c := ic.(type) {
	case *psa.P1Claims:
		d.P = 1
		sv = reflect.ValueOf(c).Elem()
	case *psa.P2Claims:
		d.P = 2
		sv = reflect.ValueOf(c).Elem()
	default:
		return d, false
	}
	d.Canon = sv.FieldByName("CanonicalProfile").String()
	if d.P == 1 {
		d.Prof = fieldString(sv, "Profile")
	} else if pf := sv.FieldByName("Profile"); !pf.IsNil() {
		prof := pf.Interface().(*eat.Profile)
		if !prof.IsURI() && !prof.IsOID() {
			d.ProfInvalid = true
		} else if prof.IsOID() {
			return d, false
		} else {
			s, _ := prof.Get()
			d.Prof = &s
		}
	}
	if v, ok := getPtrField(sv, "ClientID"); ok {
		x := int32(v.Int())
		if int64(x) != v.Int() {
			return d, false
		}
		d.CID = &x
	}
	if v, ok := getPtrField(sv, "SecurityLifeCycle"); ok {
		x := uint16(v.Uint())
		if uint64(x) != v.Uint() {
			return d, false // wider than the model's uint16: outside its domain (the oracle still judges)
		}
		d.LC = &x
	}
	d.Impl, d.Boot, d.Inst = fieldBytes(sv, "ImplID"), fieldBytes(sv, "BootSeed"), fieldBytes(sv, "InstID")
	d.Cert, d.VSI = fieldString(sv, "CertificationReference"), fieldString(sv, "VSI")
	swf := sv.FieldByName("SwComponents")
	if swf.IsNil() {
		d.SwKind = SwNilIface
	} else {
		vals, okc := psa.VerifSwComponentsValues(swf.Interface().(psa.ISwComponents))
		if !okc {
			return d, false
		}
		if vals == nil {
			d.SwKind = SwNilSlice
		} else {
			d.SwKind = SwList
			d.Sw = make([]CompDesc, len(vals))
			for i, v := range vals {
				d.Sw[i] = compDescOf(v)
			}
		}
	}
	if d.P == 1 {
		if v, ok := getPtrField(sv, "NoSwMeasurements"); ok {
			x := uint(v.Uint())
			d.NoSw = &x
		}
		if b := fieldBytes(sv, "Nonce"); b != nil {
			l := [][]byte{*b}
			d.Nonce = &l
		}
	} else if nf := sv.FieldByName("Nonce"); !nf.IsNil() {
		n := nf.Interface().(*eat.Nonce)
		l := make([][]byte, n.Len())
		for i := range l {
			l[i] = append([]byte{}, n.GetI(i)...)
		}
		d.Nonce = &l
	}
	return d, true
}

// ---- observation table (validate verdict + the ten getters) ----

// fmtComps renders what the component getters return (not the struct fields): an absent
// optional field is "_", a failing mandatory getter "!".
func fmtComps(scs []psa.ISwComponent) string {
	if scs == nil {
		return "nil"
	}
	parts := make([]string, len(scs))
	for i, sc := range scs {
		txt := func(v string, err error) string {
			if err != nil {
				if errMask(err) == 1 {
					return "_"
				}
				return "!"
			}
			return "x" + hx([]byte(v))
		}
		bin := func(v []byte, err error) string {
			if err != nil {
				return "!"
			}
			return "x" + hx(v)
		}
		parts[i] = "(" + txt(sc.GetMeasurementType()) + "," + bin(sc.GetMeasurementValue()) + "," + txt(sc.GetVersion()) + "," +
			bin(sc.GetSignerID()) + "," + txt(sc.GetMeasurementDesc()) + ")"
	}
	return "[" + strings.Join(parts, ";") + "]"
}

type getRes struct {
	Name  string
	Val   string // formatted value when Err == nil
	Err   error
	Panic bool
}

func (g getRes) String() string {
	if g.Panic {
		return "panic"
	}
	if g.Err != nil {
		return fmtErr(g.Err)
	}
	return "ok:" + g.Val
}

var getterNames = []string{"profile", "clientId", "lifecycle", "implId", "bootSeed", "certRef", "sw", "nonce", "instId", "vsi"}

func getAll(c psa.IClaims) []getRes {
	out := make([]getRes, 10)
	call := func(i int, f func() (string, error)) {
		out[i].Name = getterNames[i]
		p, _ := safely(func() { out[i].Val, out[i].Err = f() })
		out[i].Panic = p
	}
	call(0, func() (string, error) { v, e := c.GetProfile(); return "x" + hx([]byte(v)), e })
	call(1, func() (string, error) { v, e := c.GetClientID(); return strconv.Itoa(int(v)), e })
	call(2, func() (string, error) { v, e := c.GetSecurityLifeCycle(); return strconv.Itoa(int(v)), e })
	call(3, func() (string, error) { v, e := c.GetImplID(); return "x" + hx(v), e })
	call(4, func() (string, error) { v, e := c.GetBootSeed(); return "x" + hx(v), e })
	call(5, func() (string, error) { v, e := c.GetCertificationReference(); return "x" + hx([]byte(v)), e })
	call(6, func() (string, error) { v, e := c.GetSoftwareComponents(); return fmtComps(v), e })
	call(7, func() (string, error) { v, e := c.GetNonce(); return "x" + hx(v), e })
	call(8, func() (string, error) { v, e := c.GetInstID(); return "x" + hx(v), e })
	call(9, func() (string, error) { v, e := c.GetVSI(); return "x" + hx([]byte(v)), e })
	return out
}

type obsRes struct {
	VErr   error
	VPanic bool
	G      []getRes
}

func observe(c psa.IClaims) obsRes {
	var o obsRes
	o.VPanic, _ = safely(func() { o.VErr = c.Validate() })
	o.G = getAll(c)
	return o
}

func (o obsRes) String() string {
	var sb strings.Builder
	if o.VPanic {
		sb.WriteString("v=panic")
	} else {
		sb.WriteString("v=" + fmtErr(o.VErr))
	}
	for _, g := range o.G {
		sb.WriteString(" " + g.Name + "=" + g.String())
	}
	return sb.String()
}
