package main

import (
	"bufio"
	"bytes"
	"encoding/hex"
	"fmt"
	"io"
	"os"
	"os/exec"
	"strconv"
	"strings"
	"time"

	"github.com/veraison/psatoken/encoding"
)

func init() { props["C06"] = runC06 }

// the bound the property names: 1 MiB + 1 KiB per input byte, 5 s wall
func c06Bound(n int) uint64 { return 1<<20 + 1024*uint64(n) }

const c06Wall = 5 * time.Second

type c06Worker struct {
	cmd *exec.Cmd
	in  io.WriteCloser
	out *bufio.Reader
}

func startWorker() (*c06Worker, error) {
	self, err := os.Executable()
	if err != nil {
		return nil, err
	}
	// address-space limit: a reservation of gigabytes fails in the worker instead of hurting the machine
	cmd := exec.Command("/bin/sh", "-c", "ulimit -v 6291456; exec \"$0\" worker", self)
	cmd.Env = append(os.Environ(), "GOMAXPROCS=1", "GOMEMLIMIT=off")
	cmd.Stderr = nil
	in, err := cmd.StdinPipe()
	if err != nil {
		return nil, err
	}
	out, err := cmd.StdoutPipe()
	if err != nil {
		return nil, err
	}
	if err := cmd.Start(); err != nil {
		return nil, err
	}
	w := &c06Worker{cmd, in, bufio.NewReaderSize(out, 1<<16)}
	return w, nil
}

func (w *c06Worker) stop() {
	w.in.Close()
	w.cmd.Process.Kill()
	w.cmd.Wait()
}

// ask: result, bytes allocated, wall; died=true when the worker did not answer (crashed or exceeded the wall limit).
func (w *c06Worker) ask(e int, buf []byte) (res string, alloc uint64, wall time.Duration, died bool, why string) {
	type reply struct {
		line string
		err  error
	}
	ch := make(chan reply, 1)
	go func() {
		l, err := w.out.ReadString('\n')
		ch <- reply{l, err}
	}()
	if _, err := fmt.Fprintf(w.in, "%d %s\n", e, hex.EncodeToString(buf)); err != nil {
		return "", 0, 0, true, "worker gone: " + err.Error()
	}
	select {
	case r := <-ch:
		f := strings.Fields(r.line)
		if r.err != nil || len(f) != 3 {
			return "", 0, 0, true, "worker died (fatal error: out of memory / stack overflow)"
		}
		a, _ := strconv.ParseUint(f[1], 10, 64)
		ns, _ := strconv.ParseInt(f[2], 10, 64)
		return f[0], a, time.Duration(ns), false, ""
	case <-time.After(c06Wall + 2*time.Second):
		return "", 0, 0, true, fmt.Sprintf("no answer within %v", c06Wall)
	}
}

func beN(w int, v uint64) []byte {
	b := make([]byte, w)
	for i := w - 1; i >= 0; i-- {
		b[i] = byte(v)
		v >>= 8
	}
	return b
}

// head with an explicit width (1,2,4,8 following bytes)
func headW(mt byte, w int, v uint64) []byte {
	ai := map[int]byte{1: 24, 2: 25, 4: 26, 8: 27}[w]
	return append([]byte{mt<<5 | ai}, beN(w, v)...)
}

func runC06(r *Run, rng *Rng, thorough bool) {
	w, err := startWorker()
	if err != nil {
		fmt.Fprintln(os.Stderr, "C06: cannot start worker:", err)
		os.Exit(2)
	}
	defer func() { w.stop() }()
	// warm every entry point with a valid input: one-time initialisation (reflection caches of the codecs) is not
	// charged to an input
	d1, d2 := c19Claims(rng, true), c19Claims(rng, true)
	for d1.P != 1 {
		d1 = c19Claims(rng, true)
	}
	for d2.P != 2 {
		d2 = c19Claims(rng, true)
	}
	ks := keys()
	tok1, _, _ := signedToken(d1, ks[0], ks[0].algs[0])
	tok2, _, _ := signedToken(d2, ks[1], ks[1].algs[0])
	c1, c2 := tokenOf(d1).Bytes(), tokenOf(d2).Bytes()
	j1, j2 := []byte(jsonOf(d1).Text()), []byte(jsonOf(d2).Text())
	shB, _ := encoding.SerializeStructToCBOR(extEM, twoValue(rng, 255))
	shJ, _ := encoding.SerializeStructToJSON(twoValue(rng, 255))
	cborEntries := []int{0, 1, 3, 4, 7, 9, 11, 13, 14, 16}
	jsonEntries := []int{2, 5, 6, 8, 10, 12, 15}
	for i := 0; i < 3; i++ {
		for _, x := range [][]byte{tok1, tok2, c1, c2, shB} {
			for _, e := range cborEntries {
				w.ask(e, x)
			}
		}
		for _, x := range [][]byte{j1, j2, shJ} {
			for _, e := range jsonEntries {
				w.ask(e, x)
			}
		}
	}
	crashes := 0
	var maxRatio float64
	var maxWall time.Duration
	try := func(class string, e int, buf []byte) {
		if len(buf) > 65536 {
			return
		}
		op := fmt.Sprintf("entry %s %s", entryNames14(e), hx(buf))
		r.About(op)
		res, alloc, wall, died, why := w.ask(e, buf)
		if died {
			r.ImplOnly(class+"/"+entryNames14(e), false, op)
			r.Fail("terminates-bounded", fmt.Sprintf("%s on a %d-byte input: %s", entryNames14(e), len(buf), why))
			crashes++
			w.stop()
			if crashes > 20 {
				fmt.Fprintln(os.Stderr, "C06: too many worker crashes")
				r.Close()
				os.Exit(0)
			}
			nw, err := startWorker()
			if err != nil {
				fmt.Fprintln(os.Stderr, "C06: cannot restart worker:", err)
				os.Exit(2)
			}
			w = nw
			return
		}
		// the model's verdict is comparable for the hand-written map reader
		if e == 11 {
			out := res
			if res == "ok" {
				om := encoding.VerifNewOrderedMapCBOR()
				_ = om.FromCBOR(extDM, append([]byte{}, buf...))
				out = fmt.Sprintf("ok keys=%d", len(om.Keys()))
				// the statement of theorem C06.fromCBOR_bound, evaluated on the implementation
				if 2*len(om.Keys()) > len(buf) {
					r.Case(class+"/"+entryNames14(e), false, "omap "+hx(buf), out)
					r.Fail("kept-bounded-by-input", fmt.Sprintf("%d entries from %d bytes", len(om.Keys()), len(buf)))
					return
				}
			}
			r.Case(class+"/"+entryNames14(e), false, "omap "+hx(buf), out)
		} else {
			r.ImplOnly(class+"/"+entryNames14(e), false, op)
		}
		if res == "panic" {
			r.Fail("returns", entryNames14(e)+" panicked (C05)")
		}
		b := c06Bound(len(buf))
		if ratio := float64(alloc) / float64(b); ratio > maxRatio {
			maxRatio = ratio
		}
		if wall > maxWall {
			maxWall = wall
		}
		if alloc > b {
			r.Fail("memory-proportional", fmt.Sprintf("%s allocated %d bytes for a %d-byte input (bound %d)", entryNames14(e), alloc, len(buf), b))
		}
		if wall > c06Wall {
			r.Fail("terminates-bounded", fmt.Sprintf("%s took %v on a %d-byte input", entryNames14(e), wall, len(buf)))
		}
	}
	tryCBOR := func(class string, b []byte) {
		for _, e := range cborEntries {
			try(class, e, b)
		}
	}
	tryJSON := func(class string, b []byte) {
		for _, e := range jsonEntries {
			try(class, e, b)
		}
	}
	// (0) lead-in / lead-out bytes around well-formed JSON documents: byte-order marks, whitespace runs, NUL and control
	// bytes — what "tolerant" pre-processing loops in front of the decoder would look at
	for _, doc := range [][]byte{j1, j2, shJ, []byte("{}"), []byte("x"), {}} {
		for _, pre := range []string{"\xef\xbb\xbf", "\xef\xbb\xbf\xef\xbb\xbf", "\xef\xbb", "\xff\xfe", "\xfe\xff", "\x00", " \t\r\n", "\x1b", "\xef\xbb\xbf "} {
			tryJSON("json-lead-in", append([]byte(pre), doc...))
			tryJSON("json-lead-out", append(append([]byte{}, doc...), pre...))
		}
	}
	lens := []uint64{1 << 8, 1<<16 - 1, 1 << 16, 1 << 17, 1 << 20, 1 << 24, 1<<31 - 1, 1 << 31, 1<<32 - 1, 1 << 32, 1 << 40, 1<<63 - 1, 1 << 63, 1<<64 - 1}
	// (1) hostile headers: a declared length with little or nothing behind it — bare, behind tags, and in every
	// value position of a claims map, of an envelope, and of an encoding-package map
	var hostile [][]byte
	for mt := byte(2); mt <= 5; mt++ {
		for _, wd := range []int{1, 2, 4, 8} {
			for _, l := range lens {
				if wd < 8 && l >= 1<<(8*uint(wd)) {
					continue
				}
				hostile = append(hostile, headW(mt, wd, l))
			}
		}
	}
	tails := [][]byte{{}, {0x00}, {0x01, 0x02}, {0x01, 0x02, 0x03, 0x04, 0x05, 0x06, 0x07, 0x08}, bytes.Repeat([]byte{0x00}, 64)}
	for _, h := range hostile {
		for ti, tl := range tails {
			if !thorough && ti > 1 && len(h) > 5 {
				continue
			}
			b := append(append([]byte{}, h...), tl...)
			tryCBOR("hostile-header/bare", b)
			tryCBOR("hostile-header/tagged", append([]byte{0xd8, 0x3d}, b...))
			tryCBOR("hostile-header/tagged-18", append([]byte{0xd2}, b...))
		}
	}
	// inside claims maps: every value replaced by a hostile header (the map then ends early)
	for _, base := range []*Node{tokenOf(d1), tokenOf(d2)} {
		for i := range base.Pairs {
			for hi, h := range hostile {
				if !thorough && hi%5 != i%5 {
					continue
				}
				t := base.clone()
				t.Pairs = t.Pairs[:i+1]
				pre := t.Bytes()
				// re-emit: header for i+1 entries, entries before i, key i, hostile head
				var b []byte
				full := base.clone()
				full.Pairs = full.Pairs[:i]
				fb := full.Bytes()
				b = append(b, pre[0]) // map header for i+1 (<24 entries)
				b = append(b, fb[1:]...)
				b = append(b, base.Pairs[i][0].Bytes()...)
				b = append(b, h...)
				for _, e := range []int{1, 3, 4, 9} {
					try("hostile-header/claims-value", e, b)
				}
				// and as the payload of an envelope
				if hi%3 == 0 {
					prot, _, sig, _ := envelopeParts(tok1)
					try("hostile-header/evidence-payload", 0, envelope(nBstr(prot), nMap(), nBstr(b), nBstr(sig)))
				}
			}
		}
	}
	// envelope elements declared huge
	{
		prot, payload, sig, _ := envelopeParts(tok2)
		for _, h := range hostile {
			pre := append([]byte{0xd2, 0x84}, nBstr(prot).Bytes()...)
			try("hostile-header/envelope-element", 0, append([]byte{0xd2, 0x84}, h...))
			try("hostile-header/envelope-element", 0, append(append([]byte{}, pre...), h...))
			pre2 := append(append([]byte{}, pre...), 0xa0)
			try("hostile-header/envelope-element", 0, append(append([]byte{}, pre2...), h...))
			pre3 := append(append([]byte{}, pre2...), nBstr(payload).Bytes()...)
			try("hostile-header/envelope-element", 0, append(append([]byte{}, pre3...), h...))
			try("hostile-header/envelope-element", 13, append(append([]byte{}, pre3...), h...))
			_ = sig
		}
		// the array itself / the tag
		for _, l := range lens {
			try("hostile-header/envelope-array", 0, append([]byte{0xd2}, headW(4, 8, l)...))
		}
	}
	// encoding-package map: key then hostile value; hostile key
	for _, h := range hostile {
		for _, e := range []int{7, 11} {
			try("hostile-header/omap-value", e, append([]byte{0xa1, 0x01}, h...))
			try("hostile-header/omap-value", e, append([]byte{0xbf, 0x01}, h...))
			try("hostile-header/omap-key", e, append([]byte{0xa1}, h...))
			try("hostile-header/omap-value", e, append([]byte{0xd8, 0x3d, 0xa2, 0x01, 0x02, 0x03}, h...))
		}
	}
	// (2) deep nesting
	depths := []int{8, 16, 31, 32, 33, 64, 1000, 10000, 60000}
	for _, dp := range depths {
		for _, unit := range [][]byte{{0x81}, {0xa1, 0x01}, {0xc1}, {0xd8, 0x3d}, {0x9f}, {0xbf, 0x01}} {
			if dp*len(unit)+1 > 65536 {
				continue
			}
			b := bytes.Repeat(unit, dp)
			tryCBOR("deep-nesting/cbor", append(append([]byte{}, b...), 0x00))
			tryCBOR("deep-nesting/cbor-unterminated", b)
			for _, e := range []int{7, 11} {
				try("deep-nesting/omap-value", e, append(append([]byte{0xa1, 0x01}, b...), 0x00))
			}
			for _, e := range []int{1, 4} {
				try("deep-nesting/claims-value", e, append(append([]byte{0xa1, 0x19, 0x09, 0x5f}, b...), 0x00))
			}
		}
		for _, jp := range [][2]string{{"[", "]"}, {`{"a":`, "}"}} {
			if dp*(len(jp[0])+len(jp[1]))+1 > 65536 {
				continue
			}
			doc := strings.Repeat(jp[0], dp) + "1" + strings.Repeat(jp[1], dp)
			tryJSON("deep-nesting/json", []byte(doc))
			tryJSON("deep-nesting/json-unterminated", []byte(strings.Repeat(jp[0], dp)))
			// as the value of an unknown member (skipValue) and of a known member
			tryJSON("deep-nesting/json-member", []byte(`{"zzz":`+doc+`}`))
			tryJSON("deep-nesting/json-member", []byte(`{"psa-nonce":`+doc+`}`))
			tryJSON("deep-nesting/json-member", []byte(`{"i1":`+doc+`}`))
		}
	}
	// (2a) byte strings wrapped in byte strings (opaque to the CBOR library's nesting limit): as a claims-set, as the
	// payload of an envelope, as a claim's value
	for _, dp := range []int{1, 2, 16, 300, 2000, 15000} {
		inner := tokenOf(d1).Bytes()
		if dp > 300 {
			inner = []byte{0xa0}
		}
		w := inner
		for k := 0; k < dp && len(w) < 65000; k++ {
			w = append(headFor(2, uint64(len(w))), w...)
		}
		if len(w) > 65536 {
			continue
		}
		tryCBOR("deep-nesting/bstr-in-bstr", w)
		prot, _, sig, _ := envelopeParts(tok1)
		if env := envelope(nBstr(prot), nMap(), nBstr(w), nBstr(sig)); len(env) <= 65536 {
			try("deep-nesting/bstr-in-bstr-payload", 0, env)
			try("deep-nesting/bstr-in-bstr-payload", 16, env)
		}
		try("deep-nesting/bstr-in-bstr-value", 1, append([]byte{0xa1, 0x19, 0x01, 0x00}, w...))
	}
	// (2b) deep nesting where the JSON dispatcher reads it: under a profile member, with the profile unknown, null or
	// absent (the document is then refused: the refusal must not cost more than the document)
	for _, dp := range []int{100, 1500, 4000, 9000} {
		deep := strings.Repeat("[", dp) + strings.Repeat("]", dp)
		deepObj := strings.Repeat(`{"a":`, dp) + "1" + strings.Repeat("}", dp)
		for _, doc := range []string{
			`{"eat-profile":` + deep + `}`, `{"psa-profile":` + deep + `}`, `{"eat-profile":` + deepObj + `}`,
			`{"eat-profile":"http://example.com/unknown","x":` + deep + `}`, `{"eat-profile":null,"psa-profile":7,"x":` + deepObj + `}`,
			`{"eat-profile":"http://arm.com/psa/2.0.0","psa-profile":"PSA_IOT_PROFILE_1","x":` + deep + `}`,
		} {
			if len(doc) <= 65536 {
				tryJSON("deep-nesting/json-dispatch", []byte(doc))
			}
		}
	}
	// (3) large well-formed inputs: many entries / elements / long strings, up to 64 KiB
	sizes := []int{100, 1000, 2000, 5000, 8000, 16000}
	if !thorough {
		sizes = []int{100, 1500, 8000, 16000}
	}
	for _, n := range sizes {
		// a map of n distinct small integer keys (encoding-package reader and populate)
		var mb bytes.Buffer
		mb.Write(headFor(5, uint64(n)))
		for i := 0; i < n; i++ {
			mb.Write(headFor(0, uint64(i+1000)))
			mb.WriteByte(0x00)
		}
		if mb.Len() <= 65536 {
			for _, e := range []int{7, 11, 1, 3, 4, 9} {
				try("large/many-entries", e, mb.Bytes())
			}
		}
		// indefinite-length form of the same
		var ib bytes.Buffer
		ib.WriteByte(0xbf)
		for i := 0; i < n; i++ {
			ib.Write(headFor(0, uint64(i+1000)))
			ib.WriteByte(0x00)
		}
		ib.WriteByte(0xff)
		if ib.Len() <= 65536 {
			for _, e := range []int{7, 11} {
				try("large/many-entries-indefinite", e, ib.Bytes())
			}
		}
		// JSON object with n members
		var jb strings.Builder
		jb.WriteString("{")
		for i := 0; i < n && jb.Len() < 65000; i++ {
			if i > 0 {
				jb.WriteString(",")
			}
			fmt.Fprintf(&jb, `"k%d":%d`, i, i)
		}
		jb.WriteString("}")
		if jb.Len() <= 65536 {
			tryJSON("large/json-many-members", []byte(jb.String()))
		}
		// claims with a software-component array of n empty maps / a nonce array of n strings
		if n+8 <= 65536 {
			arr := append(headFor(4, uint64(n)), bytes.Repeat([]byte{0xa0}, n)...)
			try("large/many-components", 4, append([]byte{0xa1, 0x19, 0x09, 0x5f}, arr...))
			try("large/many-components", 1, append([]byte{0xa1, 0x19, 0x09, 0x5f}, arr...))
			try("large/many-components", 3, append([]byte{0xa1, 0x3a, 0x00, 0x01, 0x24, 0xfd}, arr...))
		}
		// an otherwise valid token of each profile whose component array holds n invalid (empty / half-filled)
		// components, through the validating decoders (CBOR, JSON, inside an envelope): the error report must not grow
		// faster than the input
		for pi, base := range []*Node{tokenOf(d1), tokenOf(d2)} {
			swKey := int64(-75006)
			if pi == 1 {
				swKey = 2399
			}
			for _, comp := range []*Node{nMap(), nMap([2]*Node{nUint(2), nBstr(fill(32, 1))})} {
				t := base.clone()
				var pairs [][2]*Node
				for _, p := range t.Pairs {
					if k, ok := keyInt(p[0]); ok && (k == swKey || k == -75007) {
						continue
					}
					pairs = append(pairs, p)
				}
				kids := make([]*Node, n)
				for i := range kids {
					kids[i] = comp
				}
				t.Pairs = append(pairs, [2]*Node{nInt(swKey), nArr(kids...)})
				b := t.Bytes()
				if len(b) > 65536 {
					continue
				}
				try("large/many-invalid-components", 14, b)
				try("large/many-invalid-components", 1, b)
				prot, _, sig, _ := envelopeParts(tok1)
				try("large/many-invalid-components", 16, envelope(nBstr(prot), nMap(), nBstr(b), nBstr(sig)))
			}
			jd := jsonOf([]*ClaimsDesc{d1, d2}[pi])
			var mem []JMember
			for _, m := range jd.Mem {
				if m.Name != "psa-software-components" && m.Name != "psa-no-software-measurements" {
					mem = append(mem, m)
				}
			}
			kids := make([]*JTree, n)
			for i := range kids {
				kids[i] = jO()
			}
			jd2 := &JTree{Kind: jObj, Mem: append(mem, jM("psa-software-components", jA(kids...)))}
			if txt := []byte(jd2.Text()); len(txt) <= 65536 {
				try("large/many-invalid-components", 15, txt)
				try("large/many-invalid-components", 2, txt)
			}
		}
		// one long byte string / text string
		if n*4 <= 65000 {
			s := append(headFor(2, uint64(n*4)), bytes.Repeat([]byte{0x41}, n*4)...)
			tryCBOR("large/long-string", s)
			try("large/long-string", 11, append([]byte{0xa1, 0x01}, s...))
			try("large/long-string", 1, append([]byte{0xa1, 0x19, 0x01, 0x00}, s...))
		}
	}
	// (3b) JSON documents around profile dispatch (two registered profiles at once, unknown, null, non-string values),
	// each followed by ordinary requests: an entry point that does not return — or that leaves the process unable to
	// answer the next request — shows up as a silent worker
	{
		names := []string{"PSA_IOT_PROFILE_1", "http://arm.com/psa/2.0.0", "http://example.com/unknown", ""}
		vals := func(n string) []string { return []string{`"` + n + `"`, "null", "7", "[]"} }
		for _, a := range names {
			for _, av := range vals(a) {
				for _, b := range names {
					for _, bv := range vals(b)[:2] {
						doc := []byte(`{"psa-profile":` + av + `,"eat-profile":` + bv + `,"psa-client-id":1}`)
						tryJSON("json-dispatch", doc)
						try("json-dispatch/then-cbor", 1, c1)
						try("json-dispatch/then-evidence", 0, tok2)
					}
				}
			}
		}
		for _, doc := range [][]byte{j1, j2, []byte(`{"eat-profile":"http://arm.com/psa/2.0.0","psa-profile":"PSA_IOT_PROFILE_1"}`), []byte(`{}`), []byte(`null`)} {
			tryJSON("json-dispatch", doc)
			tryCBOR("json-dispatch/then-cbor", c2)
		}
	}
	// (4) the C04 token generator (all decodable and undecodable tokens)
	ntok := 0
	genTokens(rng, false, func(tc tokCase) {
		ntok++
		if !thorough && ntok%6 != 0 {
			return
		}
		b := append(tc.n.Bytes(), tc.extra...)
		for _, e := range []int{1, 7, 11} {
			try("c04-generator", e, b)
		}
	})
	// (5) random mutations of valid inputs
	nMut := 1500
	if thorough {
		nMut = 60000
	}
	for i := 0; i < nMut; i++ {
		src := Pick(rng, [][]byte{tok1, tok2, c1, c2, shB})
		v := append([]byte{}, src...)
		for j := 0; j < 1+rng.Intn(3); j++ {
			p := rng.Intn(len(v))
			switch rng.Intn(4) {
			case 0:
				v[p] = byte(rng.U64())
			case 1:
				v[p] = Pick(rng, []byte{0x9a, 0x9b, 0xba, 0xbb, 0x5a, 0x5b, 0x7a, 0x7b, 0xda, 0xdb, 0xff, 0x9f, 0xbf})
			case 2:
				v = append(v[:p:p], v[p+1:]...)
			default:
				v = v[:p+1]
			}
			if len(v) == 0 {
				v = []byte{0xa0}
			}
		}
		tryCBOR("random-mutation", v)
	}
	r.extra["worker_crashes"] = crashes
	r.extra["max_alloc_over_bound"] = fmt.Sprintf("%.3f", maxRatio)
	r.extra["max_wall_ms"] = maxWall.Milliseconds()
	r.extra["bound"] = "1 MiB + 1 KiB per input byte; 5 s wall; inputs up to 64 KiB"
}

func entryNames14(e int) string {
	switch e {
	case 13:
		return "evidence-unmarshal"
	case 14:
		return "claims-cbor-validating"
	case 15:
		return "claims-json-validating"
	case 16:
		return "evidence-validating"
	}
	return entryNames[e]
}

// shortest-form head
func headFor(mt byte, v uint64) []byte {
	switch {
	case v < 24:
		return []byte{mt<<5 | byte(v)}
	case v < 1<<8:
		return headW(mt, 1, v)
	case v < 1<<16:
		return headW(mt, 2, v)
	case v < 1<<32:
		return headW(mt, 4, v)
	}
	return headW(mt, 8, v)
}
