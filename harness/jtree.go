package main

// JSON trees: the harness's own rendering to text (to feed the library) and
// tokenisation of the library's JSON output, plus the line-protocol syntax.

import (
	"bytes"
	"encoding/base64"
	"encoding/json"
	"fmt"
	"io"
	"math/big"
	"strings"
)

const (
	jNull = iota
	jBool
	jInt
	jNumOther
	jStr
	jArr
	jObj
)

type JMember struct {
	Name string
	Val  *JTree
}

type JTree struct {
	Kind int
	B    bool
	I    *big.Int
	Raw  string // other number literal
	S    string
	Kids []*JTree
	Mem  []JMember
}

func jN() *JTree                    { return &JTree{Kind: jNull} }
func jS(s string) *JTree            { return &JTree{Kind: jStr, S: s} }
func jI(i int64) *JTree             { return &JTree{Kind: jInt, I: big.NewInt(i)} }
func jU(i uint64) *JTree            { return &JTree{Kind: jInt, I: new(big.Int).SetUint64(i)} }
func jB64(b []byte) *JTree          { return jS(base64.StdEncoding.EncodeToString(b)) }
func jA(k ...*JTree) *JTree         { return &JTree{Kind: jArr, Kids: k} }
func jO(m ...JMember) *JTree        { return &JTree{Kind: jObj, Mem: m} }
func jM(n string, v *JTree) JMember { return JMember{n, v} }

// Proto: line-protocol syntax (no spaces).
func (t *JTree) Proto() string {
	switch t.Kind {
	case jNull:
		return "n"
	case jBool:
		if t.B {
			return "T"
		}
		return "F"
	case jInt:
		return "i" + t.I.String()
	case jNumOther:
		return "r" + hx([]byte(t.Raw))
	case jStr:
		return "s" + hx([]byte(t.S))
	case jArr:
		p := make([]string, len(t.Kids))
		for i, k := range t.Kids {
			p[i] = k.Proto()
		}
		return "[" + strings.Join(p, ",") + "]"
	default:
		p := make([]string, len(t.Mem))
		for i, m := range t.Mem {
			p[i] = hx([]byte(m.Name)) + ":" + m.Val.Proto()
		}
		return "{" + strings.Join(p, ",") + "}"
	}
}

// Text: JSON text for this tree (strings escaped by encoding/json's own Marshal of a Go string).
func (t *JTree) Text() string {
	switch t.Kind {
	case jNull:
		return "null"
	case jBool:
		if t.B {
			return "true"
		}
		return "false"
	case jInt:
		return t.I.String()
	case jNumOther:
		return t.Raw
	case jStr:
		b, _ := json.Marshal(t.S)
		return string(b)
	case jArr:
		p := make([]string, len(t.Kids))
		for i, k := range t.Kids {
			p[i] = k.Text()
		}
		return "[" + strings.Join(p, ",") + "]"
	default:
		p := make([]string, len(t.Mem))
		for i, m := range t.Mem {
			n, _ := json.Marshal(m.Name)
			p[i] = string(n) + ":" + m.Val.Text()
		}
		return "{" + strings.Join(p, ",") + "}"
	}
}

func isIntLiteral(s string) bool {
	if strings.HasPrefix(s, "-") {
		s = s[1:]
	}
	if s == "" {
		return false
	}
	for _, c := range s {
		if c < '0' || c > '9' {
			return false
		}
	}
	return true
}

// parseJSONText tokenises JSON text into a tree (member order kept).
func parseJSONText(b []byte) (*JTree, error) {
	dec := json.NewDecoder(bytes.NewReader(b))
	dec.UseNumber()
	t, err := parseJSONValue(dec)
	if err != nil {
		return nil, err
	}
	if _, err := dec.Token(); err != io.EOF {
		return nil, fmt.Errorf("trailing data")
	}
	return t, nil
}

func parseJSONValue(dec *json.Decoder) (*JTree, error) {
	tok, err := dec.Token()
	if err != nil {
		return nil, err
	}
	return parseJSONFrom(dec, tok)
}

func parseJSONFrom(dec *json.Decoder, tok json.Token) (*JTree, error) {
	switch v := tok.(type) {
	case nil:
		return jN(), nil
	case bool:
		return &JTree{Kind: jBool, B: v}, nil
	case json.Number:
		s := v.String()
		if isIntLiteral(s) {
			i, _ := new(big.Int).SetString(s, 10)
			return &JTree{Kind: jInt, I: i}, nil
		}
		return &JTree{Kind: jNumOther, Raw: s}, nil
	case string:
		return jS(v), nil
	case json.Delim:
		switch v {
		case '[':
			out := &JTree{Kind: jArr, Kids: []*JTree{}}
			for dec.More() {
				k, err := parseJSONValue(dec)
				if err != nil {
					return nil, err
				}
				out.Kids = append(out.Kids, k)
			}
			_, err := dec.Token()
			return out, err
		case '{':
			out := &JTree{Kind: jObj}
			for dec.More() {
				kt, err := dec.Token()
				if err != nil {
					return nil, err
				}
				name, ok := kt.(string)
				if !ok {
					return nil, fmt.Errorf("member name is not a string")
				}
				val, err := parseJSONValue(dec)
				if err != nil {
					return nil, err
				}
				out.Mem = append(out.Mem, JMember{name, val})
			}
			_, err := dec.Token()
			return out, err
		}
	}
	return nil, fmt.Errorf("unexpected token %v", tok)
}

func (t *JTree) get(name string) *JTree {
	for _, m := range t.Mem {
		if m.Name == name {
			return m.Val
		}
	}
	return nil
}

func (t *JTree) clone() *JTree {
	c := *t
	if t.I != nil {
		c.I = new(big.Int).Set(t.I)
	}
	c.Kids = nil
	for _, k := range t.Kids {
		c.Kids = append(c.Kids, k.clone())
	}
	if t.Kind == jArr && c.Kids == nil {
		c.Kids = []*JTree{}
	}
	c.Mem = nil
	for _, m := range t.Mem {
		c.Mem = append(c.Mem, JMember{m.Name, m.Val.clone()})
	}
	return &c
}

func (t *JTree) set(name string, v *JTree) {
	for i, m := range t.Mem {
		if m.Name == name {
			t.Mem[i].Val = v
			return
		}
	}
	t.Mem = append(t.Mem, JMember{name, v})
}

func (t *JTree) del(name string) {
	for i, m := range t.Mem {
		if m.Name == name {
			t.Mem = append(t.Mem[:i:i], t.Mem[i+1:]...)
			return
		}
	}
}

// ---- the documented JSON form of a claims-set (independent of the library) ----

func compJSON(c CompDesc) *JTree {
	if c.Nil {
		return jN()
	}
	o := jO()
	if c.MT != nil {
		o.Mem = append(o.Mem, jM("measurement-type", jS(string(*c.MT))))
	}
	if c.MV != nil {
		o.Mem = append(o.Mem, jM("measurement-value", jB64(*c.MV)))
	}
	if c.Ver != nil {
		o.Mem = append(o.Mem, jM("version", jS(string(*c.Ver))))
	}
	if c.SID != nil {
		o.Mem = append(o.Mem, jM("signer-id", jB64(*c.SID)))
	}
	if c.MD != nil {
		o.Mem = append(o.Mem, jM("measurement-description", jS(string(*c.MD))))
	}
	return o
}

// jsonOf: documented member names, base64 for byte strings, one member per claim that is set.
func jsonOf(d *ClaimsDesc) *JTree {
	o := jO()
	add := func(n string, v *JTree) {
		if v != nil {
			o.Mem = append(o.Mem, jM(n, v))
		}
	}
	optB := func(b *[]byte) *JTree {
		if b == nil {
			return nil
		}
		return jB64(*b)
	}
	optS := func(s *string) *JTree {
		if s == nil {
			return nil
		}
		return jS(*s)
	}
	var cid, lc, sw, nosw, nonce *JTree
	if d.CID != nil {
		cid = jI(int64(*d.CID))
	}
	if d.LC != nil {
		lc = jI(int64(*d.LC))
	}
	if d.SwKind == SwList && (len(d.Sw) > 0 || d.P == 2) {
		sw = jA()
		sw.Kids = []*JTree{}
		for _, c := range d.Sw {
			sw.Kids = append(sw.Kids, compJSON(c))
		}
	}
	if d.NoSw != nil {
		nosw = jU(uint64(*d.NoSw))
	}
	if d.Nonce != nil {
		if len(*d.Nonce) == 1 {
			nonce = jB64((*d.Nonce)[0])
		} else {
			nonce = jA()
			for _, b := range *d.Nonce {
				nonce.Kids = append(nonce.Kids, jB64(b))
			}
		}
	}
	if d.P == 1 {
		add("psa-profile", optS(d.Prof))
		add("psa-client-id", cid)
		add("psa-security-lifecycle", lc)
		add("psa-implementation-id", optB(d.Impl))
		add("psa-boot-seed", optB(d.Boot))
		add("psa-hwver", optS(d.Cert))
		add("psa-software-components", sw)
		add("psa-no-software-measurements", nosw)
		add("psa-nonce", nonce)
		add("psa-instance-id", optB(d.Inst))
		add("psa-verification-service-indicator", optS(d.VSI))
	} else {
		add("eat-profile", optS(d.Prof))
		add("psa-client-id", cid)
		add("psa-security-lifecycle", lc)
		add("psa-implementation-id", optB(d.Impl))
		add("psa-boot-seed", optB(d.Boot))
		add("psa-certification-reference", optS(d.Cert))
		add("psa-software-components", sw)
		add("psa-nonce", nonce)
		add("psa-instance-id", optB(d.Inst))
		add("psa-verification-service-indicator", optS(d.VSI))
	}
	return o
}

func sortedMembers(t *JTree) string {
	if t.Kind != jObj {
		return t.Proto()
	}
	p := make([]string, len(t.Mem))
	for i, m := range t.Mem {
		v := m.Val.Proto()
		if m.Val.Kind == jArr {
			// component maps: order-insensitive per element
			q := make([]string, len(m.Val.Kids))
			for j, k := range m.Val.Kids {
				q[j] = sortedMembers(k)
			}
			v = "[" + strings.Join(q, ",") + "]"
		}
		p[i] = m.Name + "=" + v
	}
	sortStrings(p)
	return strings.Join(p, ";")
}

func sortStrings(p []string) {
	for i := 1; i < len(p); i++ {
		for j := i; j > 0 && p[j] < p[j-1]; j-- {
			p[j], p[j-1] = p[j-1], p[j]
		}
	}
}
