package main

// Rng: splitmix64 — every random choice of a run derives from one seed.
type Rng struct{ s uint64 }

func NewRng(seed uint64) *Rng { return &Rng{seed*0x9E3779B97F4A7C15 + 0x1234567} }

func (r *Rng) U64() uint64 {
	r.s += 0x9E3779B97F4A7C15
	z := r.s
	z = (z ^ (z >> 30)) * 0xBF58476D1CE4E5B9
	z = (z ^ (z >> 27)) * 0x94D049BB133111EB
	return z ^ (z >> 31)
}
func (r *Rng) Intn(n int) int {
	if n <= 0 {
		return 0
	}
	return int(r.U64() % uint64(n))
}
func (r *Rng) Bool() bool        { return r.U64()&1 == 1 }
func (r *Rng) Chance(p int) bool { return r.Intn(100) < p }
func (r *Rng) Bytes(n int) []byte {
	b := make([]byte, n)
	for i := range b {
		b[i] = byte(r.U64())
	}
	return b
}
func (r *Rng) Read(p []byte) (int, error) {
	for i := range p {
		p[i] = byte(r.U64())
	}
	return len(p), nil
}
func Pick[T any](r *Rng, xs []T) T { return xs[r.Intn(len(xs))] }

// Perm: a permutation of 0..n-1
func (r *Rng) Perm(n int) []int {
	p := make([]int, n)
	for i := range p {
		p[i] = i
	}
	for i := n - 1; i > 0; i-- {
		j := r.Intn(i + 1)
		p[i], p[j] = p[j], p[i]
	}
	return p
}
