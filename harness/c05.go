package main

import (
	"fmt"
	"strings"
	"unicode/utf8"

	"github.com/veraison/eat"
	psa "github.com/veraison/psatoken"
	"github.com/veraison/psatoken/encoding"
)

func init() { props["C05"] = runC05 }

// entry points: every function that turns attacker-supplied bytes into objects
var entryNames = []string{"evidence", "claims-cbor", "claims-json", "p1-unmarshal-cbor", "p2-unmarshal-cbor", "p1-unmarshal-json",
	"p2-unmarshal-json", "populate-cbor", "populate-json", "populate-cbor-ext", "populate-json-ext", "omap-cbor", "omap-json"}

// useClaims: everything the property lists that can be done with a decoded claims-set.
func useClaims(c psa.IClaims) {
	_ = c.Validate()
	for _, g := range getAll(c) {
		if g.Panic {
			panic("getter " + g.Name + " panicked")
		}
	}
	// what the component getter hands out is usable: every getter of every component, and the stand-alone validator
	if comps, err := c.GetSoftwareComponents(); err == nil {
		for _, sc := range comps {
			_, _ = sc.GetMeasurementValue()
			_, _ = sc.GetSignerID()
			_, _ = sc.GetMeasurementType()
			_, _ = sc.GetVersion()
			_, _ = sc.GetMeasurementDesc()
			_ = sc.Validate()
		}
		if len(comps) > 0 {
			_ = psa.ValidateSwComponents(comps)
		}
	}
	_, _ = psa.EncodeClaimsToCBOR(c)
	_, _ = psa.EncodeClaimsToJSON(c)
	_, _ = psa.ValidateAndEncodeClaimsToCBOR(c)
	_, _ = psa.ValidateAndEncodeClaimsToJSON(c)
}

// callEntry runs entry point e on buf and then uses the result in every documented way.
// Returns "ok"/"err" and whether anything panicked (with the panic value).
func callEntry(e int, buf []byte) (res string, panicked bool, what interface{}) {
	in := append([]byte{}, buf...)
	var err error
	panicked, what = safely(func() {
		switch e {
		case 0:
			var ev *psa.Evidence
			ev, err = psa.DecodeEvidenceFromCOSE(in)
			if err == nil {
				useClaims(ev.Claims)
				for _, k := range keys()[:6] {
					_ = ev.Verify(k.pub)
				}
				_ = ev.Verify(nil)
				_ = ev.GetInstanceID()
				_ = ev.GetImplementationID()
				_, _ = ev.MarshalJSON()
				_, _ = psa.DecodeAndValidateEvidenceFromCOSE(in)
			}
		case 1:
			var c psa.IClaims
			c, err = psa.DecodeClaimsFromCBOR(in)
			if err == nil {
				useClaims(c)
				_, _ = psa.DecodeAndValidateClaimsFromCBOR(in)
			}
		case 2:
			var c psa.IClaims
			c, err = psa.DecodeClaimsFromJSON(in)
			if err == nil {
				useClaims(c)
				_, _ = psa.DecodeAndValidateClaimsFromJSON(in)
			}
		case 3:
			c, _ := psa.NewClaims(psa.Profile1Name)
			err = c.(*psa.P1Claims).UnmarshalCBOR(in)
			if err == nil {
				useClaims(c)
			}
			z := &psa.P1Claims{}
			if z.UnmarshalCBOR(in) == nil {
				useClaims(z)
			}
			// … and into a claims-set that already holds validated values (set through the setters)
			if w := populatedClaims(psa.Profile1Name); w != nil && w.(*psa.P1Claims).UnmarshalCBOR(in) == nil {
				useClaims(w)
			}
		case 4:
			c, _ := psa.NewClaims(psa.Profile2Name)
			err = c.(*psa.P2Claims).UnmarshalCBOR(in)
			if err == nil {
				useClaims(c)
			}
			z := &psa.P2Claims{}
			if z.UnmarshalCBOR(in) == nil {
				useClaims(z)
			}
			// … and into a claims-set that already holds validated values (set through the setters)
			if w := populatedClaims(psa.Profile2Name); w != nil && w.(*psa.P2Claims).UnmarshalCBOR(in) == nil {
				useClaims(w)
			}
		case 5:
			c, _ := psa.NewClaims(psa.Profile1Name)
			err = c.(*psa.P1Claims).UnmarshalJSON(in)
			if err == nil {
				useClaims(c)
			}
			z := &psa.P1Claims{}
			if z.UnmarshalJSON(in) == nil {
				useClaims(z)
			}
			// … and into a claims-set that already holds validated values (set through the setters)
			if w := populatedClaims(psa.Profile1Name); w != nil && w.(*psa.P1Claims).UnmarshalJSON(in) == nil {
				useClaims(w)
			}
		case 6:
			c, _ := psa.NewClaims(psa.Profile2Name)
			err = c.(*psa.P2Claims).UnmarshalJSON(in)
			if err == nil {
				useClaims(c)
			}
			z := &psa.P2Claims{}
			if z.UnmarshalJSON(in) == nil {
				useClaims(z)
			}
			// … and into a claims-set that already holds validated values (set through the setters)
			if w := populatedClaims(psa.Profile2Name); w != nil && w.(*psa.P2Claims).UnmarshalJSON(in) == nil {
				useClaims(w)
			}
		case 7:
			d := &ShTwo{}
			err = encoding.PopulateStructFromCBOR(extDM, in, d)
			if err == nil {
				_, _ = encoding.SerializeStructToCBOR(extEM, d)
			}
			// other destinations of the same convention: an embedded interface holding a pointer, holding nothing,
			// holding a struct by value (not writable: an error, not a panic)
			for _, o := range []interface{}{&ShIface{IExt: &ShInner2{}}, &ShIface{}, &ShIfaceVal{IExtV: ShValInner{}}, &ShTagOrder{}} {
				if encoding.PopulateStructFromCBOR(extDM, in, o) == nil {
					_, _ = encoding.SerializeStructToCBOR(extEM, o)
				}
			}
		case 8:
			d := &ShTwo{}
			err = encoding.PopulateStructFromJSON(in, d)
			if err == nil {
				_, _ = encoding.SerializeStructToJSON(d)
			}
			for _, o := range []interface{}{&ShIface{IExt: &ShInner2{}}, &ShIface{}, &ShIfaceVal{IExtV: ShValInner{}}, &ShTagOrder{}} {
				if encoding.PopulateStructFromJSON(in, o) == nil {
					_, _ = encoding.SerializeStructToJSON(o)
				}
			}
		case 9:
			c := ExtProfile{Name: extName(0), Base: 2}.GetClaims()
			err = c.(*ExtP2Claims).UnmarshalCBOR(in)
			if err == nil {
				useClaims(c)
			}
		case 10:
			c := ExtProfile{Name: extName(0), Base: 1}.GetClaims()
			err = c.(*ExtP1Claims).UnmarshalJSON(in)
			if err == nil {
				useClaims(c)
			}
		case 11:
			om := encoding.VerifNewOrderedMapCBOR()
			err = om.FromCBOR(extDM, in)
			if err == nil {
				for _, k := range om.Keys() {
					om.Delete(k)
				}
				_, _ = om.ToCBOR(extEM)
			}
		case 12:
			om := encoding.VerifNewOrderedMapJSON()
			err = om.FromJSON(in)
			if err == nil {
				for _, k := range om.Keys() {
					om.Delete(k)
				}
				_, _ = om.ToJSON()
			}
		}
	})
	if panicked {
		return "panic", true, what
	}
	return okErr(err), false, nil
}

// populatedClaims: a valid claims-set of the named built-in profile, built with the setters and validated once.
func populatedClaims(name string) psa.IClaims {
	p := 1
	if name == psa.Profile2Name {
		p = 2
	}
	rng := NewRng(uint64(40 + p))
	for {
		d := baseValid(rng, p)
		d.Canon, d.Prof = canonOf(p), sp(canonOf(p))
		d.NoSw, d.SwKind = nil, SwList
		d.Sw = []CompDesc{validComp(rng), validComp(rng)}
		normalise(&d)
		if hasBadUTF8(&d) || !conformant(&d) {
			continue
		}
		c, _ := psa.NewClaims(name)
		if !applyDesc(c, &d) || c.Validate() != nil {
			return nil
		}
		return c
	}
}

// eachNode visits every node of a tree with a setter that replaces it in place.
func eachNode(n *Node, visit func(get *Node, set func(*Node))) {
	for i := range n.Kids {
		i := i
		visit(n.Kids[i], func(x *Node) { n.Kids[i] = x })
		eachNode(n.Kids[i], visit)
	}
	for i := range n.Pairs {
		i := i
		visit(n.Pairs[i][1], func(x *Node) { n.Pairs[i][1] = x })
		eachNode(n.Pairs[i][1], visit)
		visit(n.Pairs[i][0], func(x *Node) { n.Pairs[i][0] = x })
	}
}

func countNodes(n *Node) int {
	c := 0
	eachNode(n, func(*Node, func(*Node)) { c++ })
	return c
}

// structureMutations: null / empty / type-swapped / duplicated members at every depth.
func structureMutations(base *Node, emit func(class string, n *Node)) {
	repl := []*Node{nNull(), nUndef(), nArr(), nMap(), nBstr(nil), nTstr(""), nUint(0), nNint(0), nSimple(21), nArr(nNull()), nArr(nArr(nNull())),
		nMap([2]*Node{nNull(), nNull()}), nTag(0, nNull()), {Kind: kF64, N: 0x7ff8000000000000}, nBstr([]byte{0xf6}), nArr(nMap())}
	total := countNodes(base)
	for idx := 0; idx < total; idx++ {
		for _, rp := range repl {
			t := base.clone()
			i := 0
			eachNode(t, func(_ *Node, set func(*Node)) {
				if i == idx {
					set(rp.clone())
				}
				i++
			})
			emit("member-replaced", t)
		}
	}
	// duplicate each map entry / array element, drop each
	var dupAt func(n *Node, path string)
	dupAt = func(n *Node, path string) {}
	_ = dupAt
	t := base.clone()
	var walk func(orig *Node)
	walk = func(orig *Node) {
		if orig.Kind == kMap {
			for i := range orig.Pairs {
				saved := orig.Pairs
				orig.Pairs = append(append([][2]*Node{}, saved...), [2]*Node{saved[i][0].clone(), saved[i][1].clone()})
				emit("entry-duplicated", t.clone())
				orig.Pairs = append(append([][2]*Node{}, saved[:i]...), saved[i+1:]...)
				emit("entry-dropped", t.clone())
				orig.Pairs = saved
				walk(saved[i][1])
			}
		}
		if orig.Kind == kArr || orig.Kind == kTag {
			for i := range orig.Kids {
				if orig.Kind == kArr {
					saved := orig.Kids
					orig.Kids = append(append([]*Node{}, saved...), saved[i].clone())
					emit("element-duplicated", t.clone())
					orig.Kids = append(append([]*Node{}, saved[:i]...), saved[i+1:]...)
					emit("element-dropped", t.clone())
					orig.Kids = saved
				}
				walk(orig.Kids[i])
			}
		}
	}
	walk(t)
}

func byteMutations(b []byte, emit func(class string, v []byte)) {
	for n := 0; n <= len(b); n++ {
		emit("truncated", b[:n])
	}
	lim := 16
	if len(b) < lim {
		lim = len(b)
	}
	for i := 0; i < lim; i++ {
		for v := 0; v < 256; v++ {
			if byte(v) == b[i] {
				continue
			}
			c := append([]byte{}, b...)
			c[i] = byte(v)
			emit("header-byte", c)
		}
	}
}

func runC05(r *Run, rng *Rng, thorough bool) {
	type seedIn struct {
		entries []int
		tree    *Node
		json    *JTree
	}
	nPan := 0
	seen := map[string]bool{}
	try := func(class string, e int, buf []byte) {
		op := fmt.Sprintf("entry %s %s", entryNames[e], hx(buf))
		r.About(op)
		res, pan, what := callEntry(e, buf)
		if pan {
			// the model has no verdict on *where* a panic is allowed: none is
			r.ImplOnly(class+"/"+entryNames[e], false, op)
			nPan++
			sig := panicSignature(fmt.Sprint(what))
			key := entryNames[e] + sig
			if !seen[key] || len(buf) < 12 {
				seen[key] = true
				r.FailSig("no-panic", fmt.Sprintf("%s panics: %v", entryNames[e], trunc(fmt.Sprint(what), 200)), sig)
			}
			return
		}
		switch e {
		case 0:
			// model-comparable: accept/reject of evidence
			acc := "reject"
			if res == "ok" {
				acc = "accept"
			}
			r.Case(class+"/"+entryNames[e], false, "envelope "+hx(buf), acc)
		case 1:
			r.Case(class+"/"+entryNames[e], false, "decv "+hx(buf), decv(buf).line)
		case 7:
			r.Case(class+"/"+entryNames[e], false, "pop two "+hx(buf), res)
		case 8:
			// the JSON populate helper against the tree-level model, when the text is a JSON document
			if jt, perr := parseJSONText(buf); perr == nil && utf8.Valid(buf) {
				out := res
				if res == "ok" {
					d := &ShTwo{}
					if encoding.PopulateStructFromJSON(append([]byte{}, buf...), d) == nil {
						out = "ok " + flatVals(d)
					}
				}
				r.Case(class+"/"+entryNames[e], false, "popj two "+jt.Proto(), out)
			} else {
				r.ImplOnly(class+"/"+entryNames[e], false, op)
			}
		case 11:
			out := res
			if res == "ok" {
				om := encoding.VerifNewOrderedMapCBOR()
				_ = om.FromCBOR(extDM, append([]byte{}, buf...))
				out = fmt.Sprintf("ok keys=%d", len(om.Keys()))
			}
			r.Case(class+"/"+entryNames[e], false, "omap "+hx(buf), out)
		default:
			r.ImplOnly(class+"/"+entryNames[e], false, op)
		}
	}
	// seeds: a valid token of each profile, an evidence, a claims JSON of each profile, encoding-package inputs
	var cborSeeds []*Node
	var jsonSeeds []*JTree
	for p := 1; p <= 2; p++ {
		for i := 0; i < 2; i++ {
			d := c19Claims(rng, true)
			for d.P != p {
				d = c19Claims(rng, true)
			}
			cborSeeds = append(cborSeeds, tokenOf(d))
			jsonSeeds = append(jsonSeeds, jsonOf(d))
		}
	}
	ks := keys()
	// (a1) structure-aware mutations of claims tokens -> claims decoders, per-type unmarshal, populate
	for si, seed := range cborSeeds {
		n := 0
		structureMutations(seed, func(class string, t *Node) {
			n++
			if !thorough && n%3 != si%3 {
				return
			}
			b := t.Bytes()
			for _, e := range []int{1, 3, 4, 7, 9, 11} {
				try(class, e, b)
			}
		})
		byteMutations(seed.Bytes(), func(class string, v []byte) {
			for _, e := range []int{1, 3, 4, 7, 9, 11} {
				if class == "header-byte" && !thorough && e != 1 && e != 7 && e != 11 {
					continue
				}
				try(class, e, v)
			}
		})
		// the same token inside a signed envelope
		d := c19Claims(rng, true)
		tok, _, _ := signedToken(d, ks[0], ks[0].algs[0])
		prot, _, sig, _ := envelopeParts(tok)
		m := 0
		structureMutations(seed, func(class string, t *Node) {
			m++
			if !thorough && m%7 != 0 {
				return
			}
			try("evidence/"+class, 0, envelope(nBstr(prot), nMap(), nBstr(t.Bytes()), nBstr(sig)))
		})
		envTree := mustParse(tok)
		structureMutations(envTree, func(class string, t *Node) { try("envelope/"+class, 0, t.Bytes()) })
		byteMutations(tok, func(class string, v []byte) {
			if class == "truncated" || thorough {
				try("envelope/"+class, 0, v)
			}
		})
	}
	// (a2) JSON documents
	jrepl := []*JTree{jN(), jA(), jO(), jS(""), jI(0), jI(-1), {Kind: jBool, B: true}, jA(jN()), jA(jA(jN())), jO(jM("", jN())), {Kind: jNumOther, Raw: "1e400"}, {Kind: jNumOther, Raw: "0.5"}, jS("!!!"), jA(jI(1), jI(2))}
	for _, seed := range jsonSeeds {
		var visitJ func(t *JTree, root *JTree)
		emitJ := func(class string, root *JTree) {
			b := []byte(root.Text())
			for _, e := range []int{2, 5, 6, 8, 10, 12} {
				try(class, e, b)
			}
		}
		visitJ = func(t *JTree, root *JTree) {
			for i := range t.Mem {
				saved := t.Mem[i].Val
				for _, rp := range jrepl {
					t.Mem[i].Val = rp.clone()
					emitJ("json-member-replaced", root)
				}
				t.Mem[i].Val = saved
				// duplicate member (same name twice), upper-cased name, dropped member
				all := t.Mem
				t.Mem = append(append([]JMember{}, all...), JMember{all[i].Name, all[i].Val.clone()})
				emitJ("json-member-duplicated", root)
				t.Mem = append(append([]JMember{}, all...), JMember{strings.ToUpper(all[i].Name), jN()})
				emitJ("json-member-case", root)
				t.Mem = append(append([]JMember{}, all[:i]...), all[i+1:]...)
				emitJ("json-member-dropped", root)
				t.Mem = all
				visitJ(saved, root)
			}
			for i := range t.Kids {
				saved := t.Kids[i]
				for _, rp := range jrepl {
					t.Kids[i] = rp.clone()
					emitJ("json-element-replaced", root)
				}
				t.Kids[i] = saved
				visitJ(saved, root)
			}
		}
		root := seed.clone()
		visitJ(root, root)
		text := []byte(seed.Text())
		for n := 0; n <= len(text); n += 1 + len(text)/120 {
			for _, e := range []int{2, 5, 6, 8, 12} {
				try("json-truncated", e, text[:n])
			}
		}
	}
	for _, s := range []string{``, `{`, `}`, `[`, `nul`, `{"a":1,"a":2}`, `{"a":1,"a":2,"a":3}`, `{"a":{"a":1,"a":2},"a":[]}`, `{"i2":"x","i2":"y"}`, `{"z":1,"z":2,"j1":"AA==","j1":"AQ=="}`,
		`{"a":[[[[[[[[[[[[[[[[[[[[[[[[[[[[[[[[[[]]]]]]]]]]]]]]]]]]]]]]]]]]]]]]]]]]}`, `{"":1}`, `{"a":1}}`,
		// both profile members at once, with values of every JSON type (a dispatcher comparing them must cope)
		`{"psa-profile":[],"eat-profile":[]}`, `{"psa-profile":{},"eat-profile":{}}`, `{"psa-profile":[1],"eat-profile":{"a":1}}`, `{"psa-profile":{"a":[]},"eat-profile":[{}]}`,
		`{"psa-profile":1,"eat-profile":1}`, `{"psa-profile":true,"eat-profile":false}`, `{"psa-profile":"PSA_IOT_PROFILE_1","eat-profile":[]}`, `{"psa-profile":[],"eat-profile":"http://arm.com/psa/2.0.0"}`,
		`{"psa-profile":"x","eat-profile":"y"}`, `{"psa-profile":1.5,"eat-profile":{}}`, `{"a":1} {"b":2}`, `[{"a":1,"a":2}]`, `{"a":]}`, `{"a":1,}`, "{\"a\":\"\xff\"}"} {
		for _, e := range []int{2, 5, 6, 8, 10, 12} {
			try("json-handwritten", e, []byte(s))
		}
	}
	// (a3) hand-written CBOR oddities for the hand-rolled map reader
	odd := [][]byte{{}, {0xd2}, {0xc0}, {0xc1}, {0xdf}, {0xd8}, {0xd8, 0x18}, {0xd9, 0x01}, {0xda}, {0xdb, 0, 0, 0, 0, 0, 0, 0, 1}, {0xc0, 0xc0}, {0xc0, 0xa0}, {0xd2, 0xd2, 0xa0},
		{0xa0}, {0xbf}, {0xbf, 0xff}, {0xbf, 0x01}, {0xbf, 0x01, 0x02}, {0xbf, 0x01, 0x02, 0xff}, {0xbf, 0xff, 0xff}, {0xa1}, {0xa1, 0x01}, {0xa1, 0x01, 0x02}, {0xa2, 0x01, 0x02},
		{0xb8}, {0xb8, 0x00}, {0xb8, 0x01, 0x01, 0x02}, {0xb9, 0x00}, {0xb9, 0x00, 0x00}, {0xba, 0x00, 0x00, 0x00}, {0xba, 0, 0, 0, 0}, {0xbb, 0, 0, 0, 0, 0, 0, 0, 0}, {0xbc}, {0xbd}, {0xbe},
		{0xa1, 0x61, 0x61, 0x01}, {0xa1, 0x18}, {0xa1, 0x01, 0xc0}, {0xa1, 0xf6, 0x01}, {0xa1, 0x1b, 0xff, 0xff, 0xff, 0xff, 0xff, 0xff, 0xff, 0xff, 0x01}, {0xa1, 0x3b, 0xff, 0xff, 0xff, 0xff, 0xff, 0xff, 0xff, 0xff, 0x01},
		{0xa2, 0x01, 0x02, 0x01, 0x03}, {0xd8, 0x20, 0xa0}, {0xd9, 0xd9, 0xf7, 0xa1, 0x01, 0x02}, {0xf6}, {0xf7}, {0x80}, {0x01}, {0x60}, {0x40}, {0xff}, {0x1c}}
	for _, b := range odd {
		for _, e := range []int{0, 1, 3, 4, 7, 9, 11} {
			try("cbor-handwritten", e, b)
		}
	}
	// (a4) envelopes with unusual header placements (algorithm only in the unprotected header, as text, as bytes, …),
	// genuinely signed by hand so that verification gets as far as it can
	for _, ht := range handTokens(rng) {
		try("hand-signed/"+ht.label, 0, ht.tok)
	}
	// (b) the C04 and C20 generators through every CBOR entry point
	ntok := 0
	genTokens(rng, false, func(tc tokCase) {
		ntok++
		if !thorough && ntok%4 != 0 {
			return
		}
		b := append(tc.n.Bytes(), tc.extra...)
		for _, e := range []int{3, 4, 7, 9, 11} {
			try("c04-generator", e, b)
		}
		if ntok%8 == 0 {
			try("c04-generator", 1, b)
		}
	})
	// nil-valued objects reachable without decoding (the result of a decode of null members)
	{
		pan, what := safely(func() {
			n := eat.Nonce{}
			c := &psa.P2Claims{Nonce: &n, CanonicalProfile: psa.Profile2Name}
			useClaims(c)
		})
		r.ImplOnly("constructed/empty-nonce", false, "use p2 with empty eat.Nonce")
		if pan {
			r.Fail("no-panic", fmt.Sprintf("using a P2Claims with an empty nonce list panics: %v", what))
		}
	}
	// the token layer behind FromJSON (unmarshalKeys / skipValue alone): malformed streams, stray closers, deep nesting
	jreps := 600
	if thorough {
		jreps = 6000
	}
	jtokCases(r, rng, jreps, 300)
	r.extra["panics_seen"] = nPan
}

// panicSignature: a stable class of a panic message (for known-findings; none are expected).
func panicSignature(s string) string {
	switch {
	case strings.Contains(s, "nil *SwComponent"):
		return "C05:nil-component-entry"
	case strings.Contains(s, "index out of range"):
		return "C05:index-out-of-range"
	case strings.Contains(s, "slice bounds out of range"):
		return "C05:slice-bounds"
	case strings.Contains(s, "nil pointer"):
		return "C05:nil-pointer"
	}
	return "C05:panic"
}
