package main

import (
	"fmt"
)

func init() {
	props["C01"] = runC01
	props["C13"] = runC13
}

// eachClaimsCase enumerates the claims-set generator shared by C01, C08, C13, C18:
//   - bases: valid claims-sets;
//   - single: every deviation applied alone to a valid base (both profiles);
//   - pairs: two deviations of different claims (masking);
//   - product: random products of 0..4 deviations.
func eachClaimsCase(rng *Rng, thorough bool, nRandom int, visit func(class string, d ClaimsDesc, ndev int)) {
	for p := 1; p <= 2; p++ {
		devs := deviations(p, thorough)
		for i := 0; i < 12; i++ {
			d := baseValid(rng, p)
			normalise(&d)
			visit(fmt.Sprintf("p%d/base", p), d, 0)
		}
		for _, dv := range devs {
			d := baseValid(rng, p)
			dv.apply(&d)
			normalise(&d)
			visit(fmt.Sprintf("p%d/single/%s", p, dv.claim), d, 1)
		}
		// masking pairs: an early-checked and a late-checked claim both wrong
		npairs := 1500
		if thorough {
			npairs = 40000
		}
		for i := 0; i < npairs; i++ {
			a, b := Pick(rng, devs), Pick(rng, devs)
			if a.claim == b.claim {
				continue
			}
			d := baseValid(rng, p)
			a.apply(&d)
			b.apply(&d)
			normalise(&d)
			visit(fmt.Sprintf("p%d/pair", p), d, 2)
		}
		for i := 0; i < nRandom; i++ {
			n := rng.Intn(5)
			d := randomClaims(rng, p, devs, n)
			visit(fmt.Sprintf("p%d/product%d", p, n), d, n)
		}
	}
}

func runC01(r *Run, rng *Rng, thorough bool) {
	nRandom := 10000
	if thorough {
		nRandom = 400000
	}
	nValid, nInvalid := 0, 0
	eachClaimsCase(rng, thorough, nRandom, func(class string, d ClaimsDesc, ndev int) {
		c := d.Build()
		o := observe(c)
		r.Case(class, ndev == 0, "obs "+d.Line(), o.String())
		want := conformant(&d)
		if want {
			nValid++
		} else {
			nInvalid++
		}
		if o.VPanic {
			// a panic is never an acceptance; whether it is allowed is C05's question
			if want {
				r.Fail("validate-iff-conformant", "Validate() panicked on a conformant claims-set")
			}
			return
		}
		got := o.VErr == nil
		if got != want {
			r.Fail("validate-iff-conformant", fmt.Sprintf("Validate()==nil is %v but the claims-set is conformant=%v (err: %v)", got, want, o.VErr))
			return
		}
		if !got {
			return
		}
		// after a successful validation: mandatory getters succeed, optional ones
		// return a conformant value or the missing-optional error
		for g, gr := range o.G {
			st := specGetter(&d, g)
			switch {
			case gr.Panic:
				r.Fail("getters-after-validate", gr.Name+" panicked after successful validation")
			case st == stOK && gr.Err != nil:
				r.Fail("getters-after-validate", fmt.Sprintf("%s fails after successful validation: %v", gr.Name, gr.Err))
			case st == stMissingOptional && (gr.Err == nil || errMask(gr.Err) != 1):
				r.Fail("getters-after-validate", fmt.Sprintf("optional %s absent but getter says %v", gr.Name, gr))
			case st == stOK && gr.Val != wantVal(&d, g):
				r.Fail("getter-value", fmt.Sprintf("%s returns %s, claim holds %s", gr.Name, gr.Val, wantVal(&d, g)))
			}
		}
	})
	r.extra["conformant_cases"] = nValid
	r.extra["nonconformant_cases"] = nInvalid
	extValidate(r, rng, map[bool]int{false: 300, true: 6000}[thorough])
	surfaceValidators(r, rng, map[bool]int{false: 400, true: 20000}[thorough])
	revalidate(r, rng, map[bool]int{false: 200, true: 5000}[thorough])
}

// wantVal: the value getter g must return on a conformant claim.
func wantVal(d *ClaimsDesc, g int) string {
	switch g {
	case 0:
		return "x" + hx([]byte(d.Canon))
	case 1:
		return fmt.Sprint(*d.CID)
	case 2:
		return fmt.Sprint(*d.LC)
	case 3:
		return "x" + hx(*d.Impl)
	case 4:
		return "x" + hx(*d.Boot)
	case 5:
		return "x" + hx([]byte(*d.Cert))
	case 6:
		if d.SwKind != SwList || len(d.Sw) == 0 {
			return "nil"
		}
		s := "["
		for i, c := range d.Sw {
			if i > 0 {
				s += ";"
			}
			s += c.String()
		}
		return s + "]"
	case 7:
		return "x" + hx((*d.Nonce)[0])
	case 8:
		return "x" + hx(*d.Inst)
	case 9:
		return "x" + hx([]byte(*d.VSI))
	}
	return "?"
}

// offending statuses of the component list (any of them is an acceptable class)
func swOffending(d *ClaimsDesc) map[int]bool {
	out := map[int]bool{}
	if s := specGetter(d, 6); s != stOK {
		out[s] = true
	}
	if d.SwKind == SwList && len(d.Sw) > 0 && !(d.P == 1 && d.NoSw != nil) {
		for _, c := range d.Sw {
			if s := compStatus(c); s != stOK {
				out[s] = true
			}
		}
	}
	return out
}

func runC13(r *Run, rng *Rng, thorough bool) {
	nRandom := 6000
	if thorough {
		nRandom = 200000
	}
	eachClaimsCase(rng, thorough, nRandom, func(class string, d ClaimsDesc, ndev int) {
		if d.ProfInvalid {
			return // not obtainable from constructors, setters or decoding
		}
		c := d.Build()
		o := observe(c)
		r.Case(class, ndev == 0, "obs "+d.Line(), o.String())
		// per getter: the documented class, exactly
		offending := map[int]bool{} // masks of offending claims
		for g, gr := range o.G {
			st := specGetter(&d, g)
			if g == 6 {
				off := swOffending(&d)
				if off[stPanicExpected] {
					continue
				}
				for s := range off {
					if s != stMissingOptional {
						offending[stMask[s]] = true
					}
				}
				if gr.Panic {
					r.Fail("getter-class", "software-components getter panicked")
					continue
				}
				if len(off) == 0 != (gr.Err == nil) {
					r.Fail("getter-class", fmt.Sprintf("sw getter: %v, expected statuses %v", gr, off))
					continue
				}
				if gr.Err != nil {
					m := errMask(gr.Err)
					okc := false
					for s := range off {
						if m == stMask[s] {
							okc = true
						}
					}
					if !okc {
						r.Fail("getter-class", fmt.Sprintf("sw getter error mask %d (%v), expected one of statuses %v", m, gr.Err, off))
					}
				}
				continue
			}
			if gr.Panic {
				r.Fail("getter-class", gr.Name+" panicked")
				continue
			}
			if st == stOK {
				if gr.Err != nil {
					r.Fail("getter-class", fmt.Sprintf("%s: unexpected error %v", gr.Name, gr.Err))
				}
				continue
			}
			if st != stMissingOptional {
				offending[stMask[st]] = true
			}
			if gr.Err == nil {
				r.Fail("getter-class", fmt.Sprintf("%s: no error, expected status %d", gr.Name, st))
				continue
			}
			if m := errMask(gr.Err); m != stMask[st] {
				r.Fail("getter-class", fmt.Sprintf("%s: errors.Is mask %d (%v), expected %d", gr.Name, m, gr.Err, stMask[st]))
			}
		}
		if hasNilComp(&d) && swOffending(&d)[stPanicExpected] {
			return
		}
		// validation: ignores missing-optional; otherwise carries the class of some offending claim
		if o.VPanic {
			r.Fail("validate-class", "Validate() panicked")
			return
		}
		if len(offending) == 0 {
			if o.VErr != nil {
				r.Fail("validate-class", fmt.Sprintf("only optional claims absent, yet Validate() = %v", o.VErr))
			}
			return
		}
		if o.VErr == nil {
			r.Fail("validate-class", "offending claims present, yet Validate() = nil")
			return
		}
		if m := errMask(o.VErr); !offending[m] {
			r.Fail("validate-class", fmt.Sprintf("Validate() error mask %d (%v) is the class of no offending claim %v", m, o.VErr, offending))
		}
	})
	runFilterCases(r, rng, thorough)
	surfaceValidators(r, rng, map[bool]int{false: 400, true: 20000}[thorough])
	oidProfiles(r, rng)
}
