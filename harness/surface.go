package main

// The less-travelled public surface: the stand-alone validators, the component container's own methods, the component's
// setters, the deprecated decoder aliases. Judged on the implementation by the property oracles (the model covers
// the same logic through the claims-level operations).

import (
	"fmt"
	"strings"

	psa "github.com/veraison/psatoken"
)

var hashAlgNames = []string{"md2", "md5", "sha-1", "sha-224", "sha-256", "sha-384", "sha-512", "shake128", "shake256"}

func firstBad(cs []CompDesc) (int, int) {
	for i, c := range cs {
		if s := compStatus(c); s != stOK {
			return i, s
		}
	}
	return -1, stOK
}

func buildComps(cs []CompDesc) []psa.ISwComponent {
	out := make([]psa.ISwComponent, len(cs))
	for i, c := range cs {
		if c.Nil {
			out[i] = (*psa.SwComponent)(nil)
		} else {
			out[i] = c.Build()
		}
	}
	return out
}

func compsString(vals []psa.ISwComponent) string {
	parts := make([]string, len(vals))
	for i, v := range vals {
		sc, ok := v.(*psa.SwComponent)
		if !ok || sc == nil {
			parts[i] = "nil"
			continue
		}
		mv, _ := sc.GetMeasurementValue()
		si, _ := sc.GetSignerID()
		mt, _ := sc.GetMeasurementType()
		ve, _ := sc.GetVersion()
		md, _ := sc.GetMeasurementDesc()
		parts[i] = fmt.Sprintf("%x/%x/%q/%q/%q", mv, si, mt, ve, md)
	}
	return strings.Join(parts, ";")
}

func randomComps(rng *Rng, max int, validPct int) []CompDesc {
	n := rng.Intn(max + 1)
	cs := make([]CompDesc, n)
	for i := range cs {
		if rng.Chance(validPct) {
			cs[i] = validComp(rng)
		} else {
			cs[i] = randomComp(rng)
			if rng.Chance(70) {
				cs[i].Nil = false
			}
		}
	}
	return cs
}

// surfaceValidators (C01, C13): ValidateHashAlgID and ValidateSwComponents accept exactly what the rules say, with the
// documented error class.
func surfaceValidators(r *Run, rng *Rng, n int) {
	cands := append([]string{}, hashAlgNames...)
	cands = append(cands, textPool...)
	for _, h := range hashAlgNames {
		cands = append(cands, strings.ToUpper(h), h+" ", " "+h, h+"\x00", strings.ReplaceAll(h, "-", ""), strings.ReplaceAll(h, "-", "_"), h[:len(h)-1])
	}
	cands = append(cands, "sha-3", "sha256", "SHA-256", "sha-512/256", "md4", "shake", "sha-1 ", "sha‐256")
	for _, c := range cands {
		want := false
		for _, h := range hashAlgNames {
			want = want || c == h
		}
		var err error
		pan, _ := safely(func() { err = psa.ValidateHashAlgID(c) })
		r.ImplOnly("surface/hash-alg-id", false, fmt.Sprintf("validate-hash-alg x%s", hx([]byte(c))))
		switch {
		case pan:
			r.Fail("validate-iff-conformant", "ValidateHashAlgID panicked")
		case (err == nil) != want:
			r.Fail("validate-iff-conformant", fmt.Sprintf("ValidateHashAlgID(%q): ok=%v, in the set of names=%v", c, err == nil, want))
		case err != nil && errMask(err) != 16:
			r.Fail("error-class", fmt.Sprintf("ValidateHashAlgID(%q): error class %d, want wrong-syntax", c, errMask(err)))
		}
	}
	for i := 0; i < n; i++ {
		cs := randomComps(rng, 5, 80)
		bad, st := firstBad(cs)
		want := len(cs) > 0 && bad < 0
		var err error
		pan, _ := safely(func() { err = psa.ValidateSwComponents(buildComps(cs)) })
		line := make([]string, len(cs))
		for j, c := range cs {
			line[j] = c.String()
		}
		r.ImplOnly("surface/validate-sw-components", false, "validate-sw-components ["+strings.Join(line, ";")+"]")
		if pan {
			if bad >= 0 && cs[bad].Nil {
				continue // a nil entry handed to the stand-alone validator: C05's domain is decoded input, not this
			}
			r.Fail("validate-iff-conformant", "ValidateSwComponents panicked")
			continue
		}
		if (err == nil) != want {
			r.Fail("validate-iff-conformant", fmt.Sprintf("ValidateSwComponents of %d components: ok=%v, all valid and non-empty=%v", len(cs), err == nil, want))
			continue
		}
		if err != nil {
			wantMask := 16 // empty list
			if bad >= 0 {
				wantMask = stMask[st]
			}
			if errMask(err) != wantMask {
				r.Fail("error-class", fmt.Sprintf("ValidateSwComponents: error class %d, want %d (%v)", errMask(err), wantMask, err))
			}
		}
	}
}

// surfaceContainer (C11): the component container's own mutators are all-or-nothing and accept exactly valid lists;
// Add appends, Replace replaces, Values/Validate agree with the contents.
func surfaceContainer(r *Run, rng *Rng, n int) {
	for i := 0; i < n; i++ {
		cont := &psa.SwComponents[*psa.SwComponent]{}
		var held []psa.ISwComponent
		nOps := 1 + rng.Intn(8)
		var hist, proto, results []string
		modelled := true // the model's container holds the library's component type and no nil entries
		for k := 0; k < nOps; k++ {
			cs := randomComps(rng, 4, 85)
			vals := buildComps(cs)
			bad, _ := firstBad(cs)
			kind := Pick(rng, []string{"add", "add", "replace"})
			hist = append(hist, fmt.Sprintf("%s:%d/%d", kind, len(cs), bad))
			parts := make([]string, len(cs))
			for ci, c := range cs {
				parts[ci] = c.String()
				if c.Nil {
					modelled = false
				}
			}
			proto = append(proto, kind+":["+strings.Join(parts, ";")+"]")
			beforeVals, beforeErr := cont.Values()
			before := compsString(beforeVals) + fmtErr(beforeErr)
			var err error
			pan, _ := safely(func() {
				if kind == "add" {
					err = cont.Add(vals...)
				} else {
					err = cont.Replace(vals)
				}
			})
			if pan {
				r.Fail("setter-panic", "container "+kind+" panicked")
				modelled = false
				break
			}
			results = append(results, fmtErr(err))
			if (err == nil) != (bad < 0) {
				r.Fail("setter-iff-valid", fmt.Sprintf("container %s of %d components (first invalid at %d): ok=%v", kind, len(cs), bad, err == nil))
			}
			afterVals, afterErr := cont.Values()
			after := compsString(afterVals) + fmtErr(afterErr)
			if err != nil {
				if before != after {
					r.Fail("fail-unchanged", fmt.Sprintf("refused container %s changed the contents: %s -> %s", kind, trunc(before, 120), trunc(after, 120)))
				}
				continue
			}
			if kind == "add" {
				held = append(held, vals...)
			} else {
				held = append([]psa.ISwComponent{}, vals...)
			}
			if want := compsString(held) + "ok"; after != want {
				r.Fail("set-get", fmt.Sprintf("after %s the container holds %s, want %s", kind, trunc(after, 160), trunc(want, 160)))
			}
			if cont.IsEmpty() != (len(held) == 0) {
				r.Fail("set-get", fmt.Sprintf("IsEmpty()=%v with %d components", cont.IsEmpty(), len(held)))
			}
			if verr := cont.Validate(); verr != nil {
				r.Fail("all-mandatory-set-validates", fmt.Sprintf("container of accepted components does not validate: %v", verr))
			}
		}
		if modelled {
			final := []string{}
			if vals, err := cont.Values(); err == nil {
				for _, v := range vals {
					final = append(final, compDescOf(v.(*psa.SwComponent)).String())
				}
			}
			r.Case("surface/container", false, "cont ops="+strings.Join(proto, "|"), "r="+strings.Join(results, ",")+" final=["+strings.Join(final, ";")+"]")
		} else {
			r.ImplOnly("surface/container", false, "container "+strings.Join(hist, ","))
		}
	}
	// a container filled by decoding (no validation on the way in): Validate and Values agree with the contents
	for i := 0; i < n/2; i++ {
		cs := randomComps(rng, 4, 60)
		kids := make([]*Node, len(cs))
		for k, c := range cs {
			kids[k] = compNode(c)
		}
		cont := &psa.SwComponents[*psa.SwComponent]{}
		if err := cont.UnmarshalCBOR(nArr(kids...).Bytes()); err != nil {
			continue
		}
		bad, st := firstBad(cs)
		var verr, valErr error
		pan, what := safely(func() { verr = cont.Validate(); _, valErr = cont.Values() })
		r.ImplOnly("surface/container-decoded", false, fmt.Sprintf("container-decoded %d/%d", len(cs), bad))
		if pan {
			r.Fail("setter-panic", fmt.Sprintf("Validate/Values of a decoded container panics: %v", what))
			continue
		}
		if (verr == nil) != (bad < 0) || (valErr == nil) != (bad < 0) {
			r.Fail("setter-iff-valid", fmt.Sprintf("decoded container (first invalid at %d): Validate ok=%v Values ok=%v", bad, verr == nil, valErr == nil))
		} else if verr != nil && (errMask(verr) != stMask[st] || errMask(valErr) != stMask[st]) {
			r.Fail("setter-error-class", fmt.Sprintf("decoded container: error class %d / %d, want %d", errMask(verr), errMask(valErr), stMask[st]))
		}
	}
	// a nil entry (an untyped nil interface, a typed nil pointer) is refused, with an error, and nothing changes
	for _, nilv := range []psa.ISwComponent{nil, (*psa.SwComponent)(nil)} {
		cont := &psa.SwComponents[*psa.SwComponent]{}
		good := validComp(rng).Build()
		_ = cont.Add(good)
		for _, kind := range []string{"add", "replace"} {
			var err error
			pan, what := safely(func() {
				if kind == "add" {
					err = cont.Add(good, nilv)
				} else {
					err = cont.Replace([]psa.ISwComponent{nilv, good})
				}
			})
			r.ImplOnly("surface/container-nil-entry", false, fmt.Sprintf("container-nil-entry %s typed=%v", kind, nilv != nil))
			vals, _ := cont.Values()
			if pan || err == nil || len(vals) != 1 {
				r.Fail("fail-unchanged", fmt.Sprintf("container %s with a nil entry: panic=%v (%v) err=%v, %d components held afterwards (1 expected)", kind, pan, what, err, len(vals)))
			} else if errMask(err) != 16 {
				r.Fail("setter-error-class", fmt.Sprintf("container %s with a nil entry: error class %d, want wrong-syntax", kind, errMask(err)))
			}
		}
	}
	// a component of another type is not this container's: refused, nothing changes
	{
		cont := &psa.SwComponents[*psa.SwComponent]{}
		good := validComp(rng).Build()
		_ = cont.Add(good)
		foreign := &foreignComp{SwComponent: *validComp(rng).Build()}
		for _, kind := range []string{"add", "replace"} {
			var err error
			pan, what := safely(func() {
				if kind == "add" {
					err = cont.Add(foreign)
				} else {
					err = cont.Replace([]psa.ISwComponent{good, foreign})
				}
			})
			r.ImplOnly("surface/container-foreign", false, "container-foreign "+kind)
			vals, _ := cont.Values()
			if pan || err == nil || len(vals) != 1 {
				r.Fail("fail-unchanged", fmt.Sprintf("container %s of a component of another type: panic=%v (%v) err=%v, %d components held afterwards (1 expected)", kind, pan, what, err, len(vals)))
			}
		}
	}
	// the component's own setters: the two hash-typed fields accept exactly 32/48/64 bytes, and a refusal changes nothing
	for l := 0; l <= 80; l++ {
		for which := 0; which < 2; which++ {
			sc := validComp(rng).Build()
			mv0, _ := sc.GetMeasurementValue()
			si0, _ := sc.GetSignerID()
			var err error
			if which == 0 {
				err = sc.SetMeasurementValue(fill(l, 0x5a))
			} else {
				err = sc.SetSignerID(fill(l, 0x5a))
			}
			r.ImplOnly("surface/component-setters", false, fmt.Sprintf("component-set field=%d len=%d", which, l))
			if (err == nil) != isHashLen(l) {
				r.Fail("setter-iff-valid", fmt.Sprintf("component setter %d with %d bytes: ok=%v", which, l, err == nil))
			}
			if err != nil && errMask(err) != 16 {
				r.Fail("setter-error-class", fmt.Sprintf("component setter %d with %d bytes: class %d", which, l, errMask(err)))
			}
			mv1, _ := sc.GetMeasurementValue()
			si1, _ := sc.GetSignerID()
			if err != nil && (string(mv0) != string(mv1) || string(si0) != string(si1)) {
				r.Fail("fail-unchanged", "refused component setter changed the component")
			}
			if err == nil {
				got := mv1
				if which == 1 {
					got = si1
				}
				if string(got) != string(fill(l, 0x5a)) {
					r.Fail("set-get", "component getter does not return the value set")
				}
			}
		}
	}
}

// deprecatedAliases (C08, C12): the deprecated JSON decoders are their documented replacements.
func deprecatedAliases(r *Run, class string, j []byte) {
	type res struct {
		ok  bool
		obs string
	}
	run := func(f func([]byte) (psa.IClaims, error)) res {
		var c psa.IClaims
		var err error
		if pan, _ := safely(func() { c, err = f(append([]byte{}, j...)) }); pan {
			return res{false, "panic"}
		}
		if err != nil {
			return res{false, "err"}
		}
		return res{true, observe(c).String()}
	}
	a1, a2 := run(psa.DecodeJSONClaims), run(psa.DecodeAndValidateClaimsFromJSON)
	b1, b2 := run(psa.DecodeUnvalidatedJSONClaims), run(psa.DecodeClaimsFromJSON)
	if a1 != a2 {
		r.Fail("like-sibling", fmt.Sprintf("%s: DecodeJSONClaims (%v) differs from DecodeAndValidateClaimsFromJSON (%v)", class, a1.ok, a2.ok))
	}
	if b1 != b2 {
		r.Fail("like-sibling", fmt.Sprintf("%s: DecodeUnvalidatedJSONClaims (%v) differs from DecodeClaimsFromJSON (%v)", class, b1.ok, b2.ok))
	}
	if a1.ok && !b1.ok {
		r.Fail("gate-iff-valid", class+": the validating alias accepts what the plain one refuses")
	}
}

// foreignComp: another implementation of ISwComponent (by embedding the library's)
type foreignComp struct{ psa.SwComponent }
