package main

func workerMain(args []string) {}
