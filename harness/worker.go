package main

import (
	"bufio"
	"encoding/hex"
	"fmt"
	"os"
	"runtime"
	"runtime/debug"
	"strconv"
	"strings"
	"time"

	psa "github.com/veraison/psatoken"
	"github.com/veraison/psatoken/encoding"
)

// decodeOnly runs decoding entry point e on buf — the decode alone, which is what C06 bounds.
func decodeOnly(e int, in []byte) error {
	switch e {
	case 0:
		_, err := psa.DecodeEvidenceFromCOSE(in)
		return err
	case 1:
		_, err := psa.DecodeClaimsFromCBOR(in)
		return err
	case 2:
		_, err := psa.DecodeClaimsFromJSON(in)
		return err
	case 3:
		c, _ := psa.NewClaims(psa.Profile1Name)
		return c.(*psa.P1Claims).UnmarshalCBOR(in)
	case 4:
		c, _ := psa.NewClaims(psa.Profile2Name)
		return c.(*psa.P2Claims).UnmarshalCBOR(in)
	case 5:
		c, _ := psa.NewClaims(psa.Profile1Name)
		return c.(*psa.P1Claims).UnmarshalJSON(in)
	case 6:
		c, _ := psa.NewClaims(psa.Profile2Name)
		return c.(*psa.P2Claims).UnmarshalJSON(in)
	case 7:
		return encoding.PopulateStructFromCBOR(extDM, in, &ShTwo{})
	case 8:
		return encoding.PopulateStructFromJSON(in, &ShTwo{})
	case 9:
		c := ExtProfile{Name: extName(0), Base: 2}.GetClaims()
		return c.(*ExtP2Claims).UnmarshalCBOR(in)
	case 10:
		c := ExtProfile{Name: extName(0), Base: 1}.GetClaims()
		return c.(*ExtP1Claims).UnmarshalJSON(in)
	case 11:
		return encoding.VerifNewOrderedMapCBOR().FromCBOR(extDM, in)
	case 12:
		return encoding.VerifNewOrderedMapJSON().FromJSON(in)
	case 13:
		ev := &psa.Evidence{}
		return ev.UnmarshalCOSE(in)
	case 14: // the validating decoders are decoding entry points as well
		_, err := psa.DecodeAndValidateClaimsFromCBOR(in)
		return err
	case 15:
		_, err := psa.DecodeAndValidateClaimsFromJSON(in)
		return err
	case 16:
		_, err := psa.DecodeAndValidateEvidenceFromCOSE(in)
		return err
	}
	return fmt.Errorf("no such entry")
}

// workerMain: the single-goroutine measuring worker of C06. One request per line on stdin
// ("<entry> <hex>"), one reply per line on stdout ("<ok|err|panic> <bytes allocated> <nanoseconds>").
// The parent runs it under an address-space limit; a fatal out-of-memory error kills this
// process only, and the parent knows which input it had just sent.
func workerMain(args []string) {
	debug.SetGCPercent(-1) // no background collection between the two readings
	in := bufio.NewReaderSize(os.Stdin, 1<<20)
	out := bufio.NewWriter(os.Stdout)
	var m0, m1 runtime.MemStats
	n := 0
	for {
		line, err := in.ReadString('\n')
		if line == "" && err != nil {
			return
		}
		f := strings.Fields(line)
		if len(f) < 1 {
			continue
		}
		e, _ := strconv.Atoi(f[0])
		var buf []byte
		if len(f) > 1 {
			buf, _ = hex.DecodeString(f[1])
		}
		res := "ok"
		runtime.ReadMemStats(&m0)
		t0 := time.Now()
		pan, _ := safely(func() {
			if decodeOnly(e, buf) != nil {
				res = "err"
			}
		})
		dt := time.Since(t0)
		runtime.ReadMemStats(&m1)
		if pan {
			res = "panic"
		}
		fmt.Fprintf(out, "%s %d %d\n", res, m1.TotalAlloc-m0.TotalAlloc, dt.Nanoseconds())
		out.Flush()
		n++
		if n%64 == 0 || m1.HeapAlloc > 256<<20 {
			runtime.GC()
		}
	}
}
