package main

// Profile claims in OID form (eat.Profile holds a URI or an OID). The model's profile claim is a text string, so these
// are judged on the implementation only (C13): a well-formed profile of another party is a *profile mismatch* —
// wrong-profile class, not wrong-syntax — for the getter and for validation, on built and on decoded claims-sets.

import (
	"fmt"

	"github.com/veraison/eat"
	psa "github.com/veraison/psatoken"
)

func oidProfiles(r *Run, rng *Rng) {
	for _, oid := range []string{"1.2.3.4", "2.999.1", "1.3.6.1.4.1.4128.1", "2.5.4.3", "0.0", "1.2.840.113549.1.1.11"} {
		for rep := 0; rep < 4; rep++ {
			d := baseValid(rng, 2)
			d.Canon = canonOf(2)
			d.Prof = sp(d.Canon)
			normalise(&d)
			c, ok := d.Build().(*psa.P2Claims)
			if !ok {
				continue
			}
			prof := &eat.Profile{}
			if err := prof.Set(oid); err != nil {
				continue
			}
			c.Profile = prof
			judge := func(how string, x *psa.P2Claims) {
				r.ImplOnly("oid-profile/"+how, false, "oid-profile "+how+" "+oid+" "+d.Line())
				var gerr, verr error
				if p, what := safely(func() { _, gerr = x.GetProfile(); verr = x.Validate() }); p {
					r.Fail("getter-class", fmt.Sprintf("profile-2 claims-set with the OID profile %s (%s): panic %v", oid, how, what))
					return
				}
				if m := errMask(gerr); m != 8 {
					r.Fail("getter-class", fmt.Sprintf("GetProfile on a profile-2 claims-set declaring the OID profile %s (%s): error mask %d (%v), expected the wrong-profile class alone", oid, how, m, gerr))
				}
				if m := errMask(verr); m != 8 {
					r.Fail("validate-class", fmt.Sprintf("Validate on a profile-2 claims-set declaring the OID profile %s (%s): error mask %d (%v), expected the wrong-profile class alone", oid, how, m, verr))
				}
			}
			judge("built", c)
			if b, err := psa.EncodeClaimsToCBOR(c); err == nil {
				c2 := &psa.P2Claims{CanonicalProfile: psa.Profile2Name}
				if p, _ := safely(func() { err = c2.UnmarshalCBOR(b) }); !p && err == nil {
					judge("decoded-cbor", c2)
				}
			}
			if j, err := psa.EncodeClaimsToJSON(c); err == nil {
				c3 := &psa.P2Claims{CanonicalProfile: psa.Profile2Name}
				if p, _ := safely(func() { err = c3.UnmarshalJSON(j) }); !p && err == nil {
					judge("decoded-json", c3)
				}
			}
		}
	}
}
