package main

import (
	"bytes"
	"fmt"
	"reflect"
	"strings"

	cose "github.com/veraison/go-cose"
	psa "github.com/veraison/psatoken"
)

func init() { props["C19"] = runC19 }

func c19Claims(rng *Rng, valid bool) *ClaimsDesc {
	for {
		p := 1 + rng.Intn(2)
		d := baseValid(rng, p)
		d.Canon = canonOf(p)
		if d.Prof != nil {
			d.Prof = sp(d.Canon)
		}
		if !valid {
			devs := deviations(p, false)
			Pick(rng, devs).apply(&d)
			d.Canon = canonOf(p)
		}
		if valid && d.NoSw != nil && rng.Chance(35) {
			d.NoSw = uip(Pick(rng, []uint{0, 0, 7, 1 << 40}))
		}
		normalise(&d)
		if hasBadUTF8(&d) || hasNilComp(&d) || d.ProfInvalid {
			continue
		}
		if d.Prof != nil && d.P == 2 {
			if *d.Prof != d.Canon && !strings.HasPrefix(*d.Prof, "http") {
				continue
			}
		}
		if conformant(&d) == valid {
			return &d
		}
	}
}

// c19Both: a profile-1 claims-set holding both a component list and the no-measurements flag (decodable, invalid): what
// the encoder makes of it must still be what verification binds to the attached claims.
func c19Both(rng *Rng) *ClaimsDesc {
	for {
		d := baseValid(rng, 1)
		d.Canon = canonOf(1)
		if d.Prof != nil {
			d.Prof = sp(d.Canon)
		}
		if d.SwKind != SwList || len(d.Sw) == 0 {
			continue
		}
		d.NoSw = uip(Pick(rng, []uint{0, 1, 7}))
		normalise(&d)
		if hasBadUTF8(&d) || hasNilComp(&d) || d.NoSw == nil || len(d.Sw) == 0 {
			continue
		}
		return &d
	}
}

func flipBit(b []byte, i int) []byte {
	c := append([]byte{}, b...)
	c[i/8] ^= 1 << uint(i%8)
	return c
}

func runC19(r *Run, rng *Rng, thorough bool) {
	nHist := 1200
	if thorough {
		nHist = 20000
	}
	ks := keys()
	// a pool of ready-made tokens for UnmarshalCOSE
	type poolTok struct {
		tok []byte
		key int
	}
	var pool []poolTok
	for i := 0; i < 12; i++ {
		k := ks[rng.Intn(6)] // no RSA here: keep the pool cheap
		d := c19Claims(rng, i%4 != 3)
		if i%8 == 7 {
			d = c19Both(rng)
		}
		tok, _, err := signedToken(d, k, k.algs[0])
		if err == nil {
			pool = append(pool, poolTok{tok, k.id})
		}
	}
	// legitimately signed COSE_Sign1 messages whose payload is not a decodable claims-set
	// (the signer also signs other things; or text claims that are not valid UTF-8)
	for i, pl := range [][]byte{{0x01}, []byte("hello"), {0xa1, 0x01}, nMap([2]*Node{nInt(-75010), nTstr("\xff")}).Bytes()} {
		k := ks[i%2]
		prot := nMap([2]*Node{nUint(1), nInt(int64(k.algs[0]))}).Bytes()
		sig := rawSign(k, k.algs[0], sigStructureBytes(prot, pl))
		pool = append(pool, poolTok{envelope(nBstr(prot), nMap(), nBstr(pl), nBstr(sig)), k.id})
	}
	for h := 0; h < nHist; h++ {
		n := 1 + rng.Intn(30)
		ev := &psa.Evidence{}
		var ops []*evOp
		// what the environment signed elsewhere (the token pool), then claims attached first
		// (the property's precondition)
		for _, pt := range pool {
			ops = append(ops, &evOp{Kind: "know", Key: pt.key, Bytes: pt.tok})
		}
		ops = append(ops, &evOp{Kind: "setclaims", D: c19Claims(rng, true)})
		for i := 0; i < n; i++ {
			switch x := rng.Intn(100); {
			case x < 12:
				ops = append(ops, &evOp{Kind: "setclaims", D: c19Claims(rng, rng.Chance(70))})
			case x < 18:
				md := c19Claims(rng, rng.Chance(40))
				if rng.Chance(25) {
					md = c19Both(rng)
				}
				ops = append(ops, &evOp{Kind: "mutate", D: md})
			case x < 45:
				k := ks[rng.Intn(len(ks))]
				if k.family == "rsa" && !rng.Chance(15) {
					k = ks[rng.Intn(6)]
				}
				mode := "good"
				if y := rng.Intn(100); y < 15 {
					mode = "failing"
				} else if y < 30 {
					mode = "emptysig"
				}
				kind := "sign"
				if rng.Bool() {
					kind = "vsign"
				}
				alg := Pick(rng, k.algs)
				if mode != "good" && rng.Chance(30) {
					alg = Pick(rng, []cose.Algorithm{0, -999, cose.AlgorithmES256, -257})
				}
				ops = append(ops, &evOp{Kind: kind, Key: k.id, Alg: alg, Mode: mode})
			case x < 65:
				pt := Pick(rng, pool)
				b := pt.tok
				switch rng.Intn(5) {
				case 0:
					b = flipBit(b, rng.Intn(len(b)*8))
				case 1:
					b = rng.Bytes(rng.Intn(40))
				case 2:
					b = b[:rng.Intn(len(b))]
				}
				ops = append(ops, &evOp{Kind: "unmarshal", Bytes: b})
			default:
				ops = append(ops, &evOp{Kind: "verify", Key: rng.Intn(len(ks))})
			}
		}
		// a failure must not prevent a later success
		tail := []*evOp{{Kind: "setclaims", D: c19Claims(rng, true)}, {Kind: "vsign", Key: 0, Alg: ks[0].algs[0], Mode: "good"}, {Kind: "verify", Key: 0}, {Kind: "verify", Key: 1}}
		ops = append(ops, tail...)

		res := make([]string, len(ops))
		type pend struct{ clause, detail string }
		var fails []pend
		replaced := true
		lastSignFailed := false
		for i, o := range ops {
			attached := ev.Claims != nil // the property speaks of an Evidence whose claims are attached
			st := o.exec(ev)
			res[i] = stepString(o, st)
			switch o.Kind {
			case "setclaims":
				if st.res == "ok" {
					replaced = true
				}
			case "mutate":
				replaced = true
			case "sign", "vsign":
				replaced = false
				lastSignFailed = st.res != "ok"
				if o.Kind == "vsign" && st.res == "ok" && attached && ev.Claims.Validate() != nil {
					fails = append(fails, pend{"validate-and-sign-gate", fmt.Sprintf("step %d: ValidateAndSign issued a token although the attached claims fail validation", i)})
				}
				if st.res != "ok" && st.token != nil {
					fails = append(fails, pend{"failed-op-no-token", fmt.Sprintf("step %d %s failed but returned a token", i, o.Kind)})
				}
				if st.res == "ok" && attached {
					// every issued token decodes and verifies on its own
					e2, err := psa.DecodeEvidenceFromCOSE(append([]byte{}, st.token...))
					if err != nil {
						// an unvalidated Sign may have been given claims whose declared profile is not registered (or whose
						// payload the claims decoder refuses): the token is then still a valid COSE_Sign1 — judged with
						// go-cose directly — it just does not carry PSA claims anybody can decode
						valid := ev.Claims.Validate() == nil
						var m cose.Sign1Message
						okEnvelope := false
						if m.UnmarshalCBOR(st.token) == nil {
							if alg, aerr := m.Headers.Protected.Algorithm(); aerr == nil {
								if v, verr := cose.NewVerifier(alg, ks[o.Key].pub); verr == nil {
									okEnvelope = m.Verify([]byte(""), v) == nil
								}
							}
						}
						if valid || o.Kind == "vsign" || !okEnvelope {
							fails = append(fails, pend{"issued-token-valid", fmt.Sprintf("step %d: issued token does not decode: %v (claims valid=%v, envelope verifies=%v)", i, err, valid, okEnvelope)})
						}
					} else if err := e2.Verify(ks[o.Key].pub); err != nil {
						fails = append(fails, pend{"issued-token-valid", fmt.Sprintf("step %d: issued token does not verify: %v", i, err)})
					}
				}
			case "unmarshal":
				replaced = false
				if st.res == "ok" {
					lastSignFailed = false
				}
			case "verify":
				if st.res == "ok" {
					if lastSignFailed {
						fails = append(fails, pend{"verify-after-failed-sign", fmt.Sprintf("step %d: Verify succeeds after a failed signing attempt", i)})
					}
					if !replaced && ev.Claims != nil {
						m := ev.VerifMessage()
						c2, err := psa.DecodeClaimsFromCBOR(append([]byte{}, m.Payload...))
						if (err != nil || reflect.TypeOf(c2) != reflect.TypeOf(ev.Claims)) && ev.Claims.Validate() != nil {
							// claims that do not validate and were signed without validation (reachable only by changing the
							// attached object behind the Evidence's back, which is not one of the property's operations) may
							// lack what the dispatcher needs to pick their type again — a profile-2 set without its profile
							// claim reads back as profile 1, one naming an unregistered profile does not read back at all.
							// The binding is then judged the other way round, as theorem
							// C19.verified_claims_bound states it: the covered payload is the encoding of the attached claims.
							if enc, eerr := psa.EncodeClaimsToCBOR(ev.Claims); eerr != nil || !bytes.Equal(enc, m.Payload) {
								fails = append(fails, pend{"binding", fmt.Sprintf("step %d: Verify ok but the covered payload is neither the encoding of the attached claims nor decodes to them (%T attached, %T decoded)", i, ev.Claims, c2)})
							}
						} else if err != nil {
							fails = append(fails, pend{"binding", fmt.Sprintf("step %d: Verify ok but the covered payload does not decode: %v", i, err)})
						} else if g1, g2 := gettersOnly(observe(ev.Claims)), gettersOnly(observe(c2)); g1 != g2 {
							fails = append(fails, pend{"binding", fmt.Sprintf("step %d: Verify ok but attached claims differ from the decoding of the covered payload:\n attached: %s\n payload:  %s", i, g1, g2)})
						}
					}
				}
			}
		}
		// the tail: a later success is possible
		nt := len(ops)
		if !strings.HasPrefix(res[nt-3], "ok") || res[nt-2] != "ok" {
			fails = append(fails, pend{"failure-not-sticky", fmt.Sprintf("after the history, ValidateAndSign of valid claims = %s, Verify = %s", trunc(res[nt-3], 10), res[nt-2])})
		}
		if res[nt-1] == "ok" {
			fails = append(fails, pend{"wrong-key", "Verify succeeds with a key other than the signer's"})
		}
		protos := make([]string, len(ops))
		for i, o := range ops {
			protos[i] = o.proto()
		}
		r.Case("history", false, fmt.Sprintf("ev keys=%s ops=%s", keysProto(), strings.Join(protos, "|")),
			"r="+strings.Join(res, ",")+" claims="+evClaimsDesc(ev))
		for _, f := range fails {
			r.Fail(f.clause, f.detail)
		}
	}
	// extension claims-sets: what is attached is what the issued token's payload says, the extension's own claims included
	extSignRoundTrip(r, rng, map[bool]int{false: 200, true: 4000}[thorough])
}
