package main

// Text layer of JSON (Psa/Model/JsonText.lean): the model's reader `parseDoc` against encoding/json's verdict
// (json.Valid) and token stream on the same bytes (op `jtext`), and the model's writer `render` against
// json.Marshal over an order-keeping tree (op `jrender`).  The library's own JSON output goes through `jtext` in
// C12; here the two functions are compared on documents the library never emits: every escape, surrogate pairs and
// lone surrogates, invalid UTF-8, U+2028/9, control characters, number syntax at its edges, whitespace, malformed text.

import (
	"encoding/json"
	"fmt"
	"strings"
)

// ordJ marshals a tree member by member in tree order, leaves through json.Marshal (as the library's ToJSON does).
type ordJ struct{ t *JTree }

func (o ordJ) MarshalJSON() ([]byte, error) { return []byte(o.t.Text()), nil }

func jtextOne(r *Run, class string, data []byte) {
	res := "err"
	if json.Valid(data) {
		t, err := parseJSONText(data)
		if err != nil {
			r.ImplOnly(class, false, "jtext "+hx(data))
			r.Fail("harness", fmt.Sprintf("json.Valid accepts %q but the tokeniser reports %v", trunc(string(data), 200), err))
			return
		}
		res = "ok " + t.Proto()
	}
	arg := hx(data)
	if arg == "" {
		arg = "-"
	}
	r.Case(class, false, "jtext "+arg, res)
}

func jrenderOne(r *Run, class string, t *JTree) {
	b, err := json.Marshal(ordJ{t})
	if err != nil {
		return // a raw number literal json.Marshal refuses; not a document
	}
	r.Case(class, false, "jrender "+t.Proto(), "text="+hx(b))
	jtextOne(r, class+"/reread", b)
}

var jtextStrings = []string{"", "a", "plain text", "q\"uote", "back\\slash", "sl/ash", "\b\f\n\r\t", "\x00\x01\x1f", "\x7f", "<tag>&amp;",
	"é", "€", "\u2028", "\u2029", "x\u2028y\u2029z", "\u2027\u202a", "😀", "\U0010ffff", "\ufffd", "\xff", "\xc0\x80", "\xe2\x80", "\xe2\x28\xa1",
	"\xed\xa0\x80", "\xf0\x9f\x98", "\xf4\x90\x80\x80", "a\xe2\x80\xa8", "\xc2", "\xe0\x9f\xbf", "\xe0\xa0\x80", "\xf0\x8f\xbf\xbf", "\xf0\x90\x80\x80",
	"http://arm.com/psa/2.0.0", "PSA_IOT_PROFILE_1", "0604565272829-10010", "AAECAwQFBgcICQoLDA0ODxAREhMUFRYXGBkaGxwdHh8="}

func randJText(rng *Rng, depth int) *JTree {
	k := rng.Intn(11)
	if depth <= 0 && k >= 7 {
		k = rng.Intn(7)
	}
	rs := func() string {
		if rng.Chance(70) {
			return Pick(rng, jtextStrings)
		}
		n := rng.Intn(6)
		b := make([]byte, n)
		for i := range b {
			switch rng.Intn(4) {
			case 0:
				b[i] = byte(rng.Intn(256))
			case 1:
				b[i] = byte(rng.Intn(0x30))
			default:
				b[i] = byte(0x20 + rng.Intn(0x5f))
			}
		}
		return string(b) + Pick(rng, jtextStrings)
	}
	switch k {
	case 0:
		return jN()
	case 1:
		return &JTree{Kind: jBool, B: rng.Bool()}
	case 2:
		return jI(int64(rng.Intn(2000)) - 1000)
	case 3:
		v := jU(rng.U64())
		if rng.Bool() {
			v.I.Neg(v.I)
		}
		if rng.Chance(20) {
			v.I.Mul(v.I, v.I)
		}
		return v
	case 4:
		return &JTree{Kind: jNumOther, Raw: Pick(rng, []string{"1.5", "-0.0", "1e3", "2E-2", "12345678901234567890.5", "0.0", "0e0", "-1E+10", "1e-5"})}
	case 5, 6:
		return jS(rs())
	case 7, 8:
		n := rng.Intn(4)
		t := jA()
		for i := 0; i < n; i++ {
			t.Kids = append(t.Kids, randJText(rng, depth-1))
		}
		return t
	default:
		n := rng.Intn(4)
		t := jO()
		for i := 0; i < n; i++ {
			t.Mem = append(t.Mem, jM(rs(), randJText(rng, depth-1)))
		}
		return t
	}
}

var jtextFixed = []string{``, ` `, `null`, ` null `, "\t\r\n null\n", `nul`, `nulll`, `null null`, `true`, `false`, `tru`, `True`, `fals`, `0`, `-0`, `-`, `--1`, `+1`, `01`, `00`, `-01`, `1.`, `1.e3`, `.5`, `1.5`, `1e`, `1e+`, `1e+5`, `1E-0`, `1e5.5`, `0x10`, `1 2`, `12a`,
	`123456789012345678901234567890`, `-123456789012345678901234567890`, `0.0000`, `10`, `100`, `1000000`, `9`, `-9`, `19`, `90`,
	`""`, `"`, `"a`, `"a"b`, `"\"`, `"\\"`, `"\/"`, `"\b\f\n\r\t"`, `"\x"`, `"\u"`, `"\u12"`, `"\u12g4"`, `"\u0041"`, `"\u00e9"`, `"\u00E9"`, `"\ud83d\ude00"`, `"\uD83D\uDE00"`, `"\ud83d"`, `"\ud83dx"`, `"\ud83d\u0041"`,
	`"\ude00"`, `"\ude00\ud83d"`, `"\ud83d\ud83d\ude00"`, `"\udbff\udfff"`, `"\ud800\udc00"`, `"\ud7ff\ue000"`, `"\uffff"`, `"\u0000"`, `"\u2028\u2029"`, "\"a\tb\"", "\"a\nb\"", "\"\x1f\"", "\"\x7f\"", "\"\xff\"", "\"\xe2\x80\xa8\"", "\"\xc3\xa9\"", "\"\xc3\"", "\"\xf0\x9f\x98\x80\"", "\"\xed\xa0\x80\"",
	`[]`, `[ ]`, `[`, `]`, `[1`, `[1,`, `[1,]`, `[,1]`, `[1 2]`, `[1,2]`, `[ 1 , 2 ]`, `[[]]`, `[[],[]]`, `[[[[[[]]]]]]`, `[null,true,false]`, `[1]]`, `[1}`, `["a",]`,
	`{}`, `{ }`, `{`, `}`, `{"a"}`, `{"a":}`, `{"a":1`, `{"a":1,}`, `{"a":1,"b"}`, `{"a":1 "b":2}`, `{"a":1,"a":2}`, `{a:1}`, `{1:2}`, `{"a":1}`, ` { "a" : 1 , "b" : [ ] } `, `{"a":{"b":{"c":{}}}}`, `{"a":[{"b":[]}]}`, `{"":""}`, `{"a":1}}`, `{"a":1]`, `{"\u0061":1}`, `{"a\n":1}`,
	"{\"a\"\n:\n1\n}", "[1,\t2\r]", "\ufeff1", "1\x00", "\x00", `{"a":"\ud83d","b":"\ude00"}`, `'a'`, `{"a":'b'}`, `[1,2,3,4,5,6,7,8,9,10,11,12]`, `/* c */ 1`, `1 // c`, `NaN`, `Infinity`, `-Infinity`, `[-]`, `[1e]`, `{"n":-0.0e-0}`}

func jtextCases(r *Run, rng *Rng, reps int) {
	for _, s := range jtextFixed {
		jtextOne(r, "text/fixed", []byte(s))
	}
	for _, s := range jtextStrings {
		jrenderOne(r, "text/render-string", jS(s))
		jrenderOne(r, "text/render-key", jO(jM(s, jS(s))))
	}
	for rep := 0; rep < reps; rep++ {
		t := randJText(rng, 1+rng.Intn(5))
		jrenderOne(r, "text/render", t)
		data := []byte(t.Text())
		switch rep % 5 {
		case 0: // whitespace wherever it is allowed
			var b strings.Builder
			inStr, esc := false, false
			for _, c := range data {
				if inStr {
					b.WriteByte(c)
					if esc {
						esc = false
					} else if c == '\\' {
						esc = true
					} else if c == '"' {
						inStr = false
					}
					continue
				}
				if c == '"' {
					inStr = true
				}
				if strings.IndexByte("{}[],:", c) >= 0 {
					b.WriteString(Pick(rng, []string{"", " ", "\n", "\t\r ", "  "}))
					b.WriteByte(c)
					b.WriteString(Pick(rng, []string{"", " ", "\n", "\t\r ", "  "}))
				} else {
					b.WriteByte(c)
				}
			}
			jtextOne(r, "text/whitespace", []byte(b.String()))
		case 1: // truncated
			if len(data) > 1 {
				jtextOne(r, "text/truncated", data[:1+rng.Intn(len(data)-1)])
			}
		case 2: // one byte replaced
			m := append([]byte(nil), data...)
			if len(m) > 0 {
				m[rng.Intn(len(m))] = Pick(rng, []byte("{}[],:\"\\u0 19.eE-+tfn\x00\x1f\x7f\x80\xe2\xff"))
				jtextOne(r, "text/byte-replaced", m)
			}
		case 3: // one byte inserted
			i := rng.Intn(len(data) + 1)
			m := append(append(append([]byte(nil), data[:i]...), Pick(rng, []byte("{}[],:\"\\u0 19.eE-+tfn\x00\x0a\x7f\x80\xc3"))), data[i:]...)
			jtextOne(r, "text/byte-inserted", m)
		case 4: // one byte removed
			if len(data) > 1 {
				i := rng.Intn(len(data))
				jtextOne(r, "text/byte-removed", append(append([]byte(nil), data[:i]...), data[i+1:]...))
			}
		}
	}
}
