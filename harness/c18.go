package main

import (
	"bytes"
	"fmt"
	"strings"

	psa "github.com/veraison/psatoken"
)

func init() { props["C18"] = runC18 }

// deepSnap: everything a caller can see of a claims-set — the exported fields (nil versus empty included),
// every getter, the validation verdict and both encodings.
func deepSnap(c psa.IClaims) string {
	var sb strings.Builder
	if d, ok := DescOf(c); ok {
		sb.WriteString(d.Line())
	} else {
		sb.WriteString(fmt.Sprintf("%T", c))
	}
	sb.WriteString(" || " + observe(c).String())
	cb, cerr := psa.EncodeClaimsToCBOR(c)
	jb, jerr := psa.EncodeClaimsToJSON(c)
	fmt.Fprintf(&sb, " || cbor=%s/%v json=%s/%v", hx(cb), cerr != nil, jb, jerr != nil)
	return sb.String()
}

// fieldSnap: the exported state only (no method of the library is called to take it).
func fieldSnap(c psa.IClaims) string {
	if d, ok := DescOf(c); ok {
		return d.Line()
	}
	return fmt.Sprintf("%#v", c)
}

type readOp struct {
	name string
	f    func(c psa.IClaims) string
}

func claimsReadOps() []readOp {
	ops := []readOp{
		{"Validate", func(c psa.IClaims) string { return fmtErr(c.Validate()) }},
		{"EncodeCBOR", func(c psa.IClaims) string { b, e := psa.EncodeClaimsToCBOR(c); return hx(b) + fmtErr(e) }},
		{"EncodeJSON", func(c psa.IClaims) string { b, e := psa.EncodeClaimsToJSON(c); return string(b) + fmtErr(e) }},
		{"ValidateAndEncodeCBOR", func(c psa.IClaims) string {
			b, e := psa.ValidateAndEncodeClaimsToCBOR(c)
			return hx(b) + fmtErr(e)
		}},
		{"ValidateAndEncodeJSON", func(c psa.IClaims) string {
			b, e := psa.ValidateAndEncodeClaimsToJSON(c)
			return string(b) + fmtErr(e)
		}},
		{"ValidateClaims", func(c psa.IClaims) string { return fmtErr(psa.ValidateClaims(c)) }},
	}
	for i := range getterNames {
		i := i
		ops = append(ops, readOp{"Get:" + getterNames[i], func(c psa.IClaims) string { return getAll(c)[i].String() }})
	}
	return ops
}

func runC18(r *Run, rng *Rng, thorough bool) {
	nRandom := 700
	if thorough {
		nRandom = 40000
	}
	ops := claimsReadOps()
	// (1) claims-sets of the C01 generator (valid and invalid, nil/empty containers, nil components …)
	eachClaimsCase(rng, false, nRandom, func(class string, d ClaimsDesc, ndev int) {
		if hasNilComp(&d) && rng.Chance(60) && !strings.Contains(class, "/single/") {
			return
		}
		c := d.Build()
		before := fieldSnap(c)
		var beforeDeep string
		if p, _ := safely(func() { beforeDeep = deepSnap(c) }); p {
			return // a panicking read is C05's subject
		}
		first := map[string]string{}
		var seq []string
		var fails [][2]string
		n := 3 + rng.Intn(14)
		for k := 0; k < n; k++ {
			op := Pick(rng, ops)
			seq = append(seq, op.name)
			var res string
			if p, _ := safely(func() { res = op.f(c) }); p {
				res = "panic"
			}
			if prev, ok := first[op.name]; ok && prev != res {
				fails = append(fails, [2]string{"repeatable", fmt.Sprintf("%s returned %s, then %s", op.name, trunc(prev, 200), trunc(res, 200))})
			}
			first[op.name] = res
			if now := fieldSnap(c); now != before {
				fails = append(fails, [2]string{"unchanged", fmt.Sprintf("after %s the claims-set's fields differ:\n%s\n%s", op.name, before, now)})
				before = now
			}
		}
		var afterDeep string
		safely(func() { afterDeep = deepSnap(c) })
		if afterDeep != beforeDeep {
			fails = append(fails, [2]string{"unchanged", fmt.Sprintf("after %s the claims-set reads differently:\n%s\n%s", strings.Join(seq, ","), trunc(beforeDeep, 900), trunc(afterDeep, 900))})
		}
		// the model: after any read sequence the object observes as the original description does
		var o obsRes
		safely(func() { o = observe(c) })
		r.Case("claims/"+class, ndev == 0, "obs "+d.Line(), o.String())
		for _, f := range fails {
			r.Fail(f[0], f[1])
		}
	})
	// (2) decoded claims: the same, plus the input buffer clause
	nTok := 0
	genTokens(rng, false, func(tc tokCase) {
		nTok++
		if !thorough && nTok%5 != 0 {
			return
		}
		buf := append(tc.n.Bytes(), tc.extra...)
		orig := append([]byte{}, buf...)
		var c psa.IClaims
		var err error
		if p, _ := safely(func() { c, err = psa.DecodeClaimsFromCBOR(buf) }); p || err != nil {
			return
		}
		var snap string
		if p, _ := safely(func() { snap = deepSnap(c) }); p {
			return
		}
		r.ImplOnly("decoded-cbor", false, "decode-then-read "+hx(orig))
		if !bytes.Equal(buf, orig) {
			r.Fail("input-unchanged", "DecodeClaimsFromCBOR wrote to the caller's buffer")
		}
		if reg := pointsInto(regionsOf(c), buf); reg != nil {
			r.Fail("no-reference-to-input", fmt.Sprintf("the decoded claims refer to the caller's buffer (at %s)", reg.path))
		}
		for i := range buf {
			buf[i] = 0xAA
		}
		var snap2 string
		safely(func() { snap2 = deepSnap(c) })
		if snap2 != snap {
			r.Fail("no-reference-to-input", fmt.Sprintf("overwriting the input buffer changed the decoded claims:\n%s\n%s", trunc(snap, 700), trunc(snap2, 700)))
		}
		for k := 0; k < 6; k++ {
			op := Pick(rng, ops)
			safely(func() { op.f(c) })
		}
		var snap3 string
		safely(func() { snap3 = deepSnap(c) })
		if snap3 != snap {
			r.Fail("unchanged", fmt.Sprintf("read-side calls changed the decoded claims:\n%s\n%s", trunc(snap, 700), trunc(snap3, 700)))
		}
	})
	// JSON-decoded claims and the buffer clause
	nj := 60
	if thorough {
		nj = 3000
	}
	for i := 0; i < nj; i++ {
		d := c19Claims(rng, i%3 != 0)
		text := []byte(jsonOf(d).Text())
		orig := append([]byte{}, text...)
		var c psa.IClaims
		var err error
		if p, _ := safely(func() { c, err = psa.DecodeClaimsFromJSON(text) }); p || err != nil {
			continue
		}
		snap := deepSnap(c)
		r.ImplOnly("decoded-json", false, "decode-json-then-read "+string(orig))
		if reg := pointsInto(regionsOf(c), text); reg != nil {
			r.Fail("no-reference-to-input", fmt.Sprintf("the JSON-decoded claims refer to the caller's buffer (at %s)", reg.path))
		}
		for k := range text {
			text[k] = 0xAA
		}
		if now := deepSnap(c); now != snap {
			r.Fail("no-reference-to-input", "overwriting the JSON input changed the decoded claims")
		}
	}
	// (3) evidence: verification, accessors, export; buffer clause for COSE
	ks := keys()
	ne := 50
	if thorough {
		ne = 2500
	}
	for i := 0; i < ne; i++ {
		d := c19Claims(rng, i%4 != 0)
		k := ks[rng.Intn(len(ks))]
		alg := Pick(rng, k.algs)
		tok, _, err := signedToken(d, k, alg)
		if err != nil {
			continue
		}
		buf := append([]byte{}, tok...)
		ev, derr := psa.DecodeEvidenceFromCOSE(buf)
		if derr != nil {
			continue
		}
		if i%3 == 1 && ev.Claims != nil {
			// the application has changed the attached claims since the decode (a setter on the object it holds):
			// verification reads the envelope and must leave the claims as they are
			_ = ev.Claims.SetClientID(int32(-7 - i))
		}
		evSnap := func() string {
			m := ev.VerifMessage()
			ms := "nil"
			if m != nil {
				b, e := m.MarshalCBOR()
				ms = hx(b) + fmtErr(e)
			}
			cs := "nil"
			if ev.Claims != nil {
				cs = deepSnap(ev.Claims)
			}
			return ms + " ## " + cs
		}
		snap := evSnap()
		r.ImplOnly("evidence", false, "evidence-read "+hx(tok))
		if reg := pointsInto(regionsOf(ev), buf); reg != nil {
			r.Fail("no-reference-to-input", fmt.Sprintf("the decoded Evidence refers to the caller's buffer (at %s)", reg.path))
		}
		// outcomes before scribbling
		type vr struct {
			key int
			res string
		}
		verifyAll := func() []vr {
			var out []vr
			for _, kk := range ks {
				var e error
				if p, _ := safely(func() { e = ev.Verify(kk.pub) }); p {
					out = append(out, vr{kk.id, "panic"})
				} else {
					out = append(out, vr{kk.id, fmtErrText(e)})
				}
			}
			return out
		}
		v1 := verifyAll()
		for j := range buf {
			buf[j] = 0xAA
		}
		if now := evSnap(); now != snap {
			r.Fail("no-reference-to-input", "overwriting the COSE input changed the decoded Evidence")
		}
		// random read sequence: Verify with right / wrong / wrong-type keys (failures included), accessors, JSON
		first := map[string]string{}
		for s := 0; s < 4+rng.Intn(10); s++ {
			var name, res string
			switch rng.Intn(5) {
			case 0, 1:
				kk := ks[rng.Intn(len(ks))]
				if rng.Chance(30) {
					kk = k
				}
				name = fmt.Sprintf("Verify(%d)", kk.id)
				safely(func() { res = fmtErrText(ev.Verify(kk.pub)) })
			case 2:
				name = "GetInstanceID"
				safely(func() {
					p := ev.GetInstanceID()
					res = fmt.Sprint(p != nil)
					if p != nil {
						res += hx(*p)
					}
				})
			case 3:
				name = "GetImplementationID"
				safely(func() {
					p := ev.GetImplementationID()
					res = fmt.Sprint(p != nil)
					if p != nil {
						res += hx(*p)
					}
				})
			default:
				name = "MarshalJSON"
				safely(func() { b, e := ev.MarshalJSON(); res = string(b) + fmtErr(e) })
			}
			if prev, ok := first[name]; ok && prev != res {
				r.Fail("repeatable", fmt.Sprintf("%s returned %q, then %q", name, trunc(prev, 200), trunc(res, 200)))
			}
			first[name] = res
			if now := evSnap(); now != snap {
				r.Fail("unchanged", fmt.Sprintf("after %s the Evidence differs", name))
				snap = now
			}
		}
		v2 := verifyAll()
		for j := range v1 {
			if v1[j] != v2[j] {
				r.Fail("repeatable", fmt.Sprintf("Verify with key %d: %q before, %q after the read sequence / overwriting the input", v1[j].key, v1[j].res, v2[j].res))
			}
		}
		if v1[k.id].res != "ok" {
			r.Fail("verify-own-key", fmt.Sprintf("freshly decoded token does not verify under its key: %s", v1[k.id].res))
		}
	}
	// several claims bad at once: validation, the validating encoders and SetClaims say the same thing every time
	// (which of the offending claims is reported must not depend on anything that varies between calls)
	for p := 1; p <= 2; p++ {
		for rep := 0; rep < 40; rep++ {
			d := baseValid(rng, p)
			d.Canon = canonOf(p)
			if d.Prof != nil {
				d.Prof = sp(d.Canon)
			}
			bad := 0
			if rng.Chance(75) {
				d.VSI, bad = sp(""), bad+1
			}
			if rng.Chance(75) {
				d.CID, bad = nil, bad+1
			}
			if rng.Chance(75) {
				d.Boot, bad = bp(fill(5, 1)), bad+1
			}
			if rng.Chance(75) {
				d.Cert, bad = sp("not-a-reference"), bad+1
			}
			if rng.Chance(40) {
				d.Impl, bad = bp(fill(3, 1)), bad+1
			}
			if bad < 2 {
				continue
			}
			normalise(&d)
			c := d.Build()
			r.ImplOnly("several-bad-claims", false, "repeat-validate "+d.Line())
			say := func() string {
				var e1, e2, e3 error
				if pan, _ := safely(func() {
					e1 = c.Validate()
					_, e2 = psa.ValidateAndEncodeClaimsToCBOR(c)
					e3 = (&psa.Evidence{}).SetClaims(c)
				}); pan {
					return "panic"
				}
				return fmt.Sprintf("%v | %v | %v", e1, e2, e3)
			}
			first := say()
			for k := 0; k < 24; k++ {
				if again := say(); again != first {
					r.Fail("repeatable", fmt.Sprintf("validating the same unchanged claims-set twice gives different results:\n first: %s\n later: %s", first, again))
					break
				}
			}
		}
	}
	// extension claims of every kind (slices, pointers, a raw CBOR item, two levels of embedding): no reference to the buffer
	richExt(r, rng, 300, map[string]string{"buffer": "no-buffer-reference"})
}

// fmtErrText: the full error text (repeatability is about getting the same result, message included)
func fmtErrText(e error) string {
	if e == nil {
		return "ok"
	}
	return "err:" + e.Error()
}
