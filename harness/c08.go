package main

import (
	"bytes"
	"crypto/ecdsa"
	"crypto/elliptic"
	"crypto/rand"
	"fmt"
	"strings"

	cose "github.com/veraison/go-cose"
	psa "github.com/veraison/psatoken"
)

func init() { props["C08"] = runC08 }

var c08Key *ecdsa.PrivateKey

func c08Signer() (cose.Signer, *ecdsa.PublicKey) {
	if c08Key == nil {
		k, err := ecdsa.GenerateKey(elliptic.P256(), rand.Reader)
		if err != nil {
			panic(err)
		}
		c08Key = k
	}
	s, err := cose.NewSigner(cose.AlgorithmES256, c08Key)
	if err != nil {
		panic(err)
	}
	return s, &c08Key.PublicKey
}

func okErr(err error) string {
	if err == nil {
		return "ok"
	}
	return "err"
}

func runC08(r *Run, rng *Rng, thorough bool) {
	nRandom := 2500
	if thorough {
		nRandom = 100000
	}
	signer, pub := c08Signer()
	eachClaimsCase(rng, false, nRandom, func(class string, d ClaimsDesc, ndev int) {
		if hasBadUTF8(&d) || hasNilComp(&d) {
			return // text outside the JSON model / nil entries: C09, C05
		}
		// extension canonical names cannot be decoded back through the dispatcher: keep built-in ones
		if d.Canon != canonOf(d.P) {
			return
		}
		c := d.Build()
		var verr error
		if p, _ := safely(func() { verr = c.Validate() }); p {
			return
		}
		valid := verr == nil
		line := "v=" + okErr(verr)
		var fails [][2]string
		fail := func(clause, detail string) { fails = append(fails, [2]string{clause, detail}) }

		// gate 1: SetClaims
		ev := &psa.Evidence{}
		e1 := ev.SetClaims(c)
		line += " set=" + okErr(e1)
		if (e1 == nil) != valid {
			fail("gate-iff-valid", fmt.Sprintf("SetClaims ok=%v, Validate()==nil is %v", e1 == nil, valid))
		}
		if e1 != nil && ev.Claims != nil {
			fail("nothing-attached", "SetClaims failed but attached claims")
		}
		if e1 == nil && ev.Claims != c {
			fail("like-sibling", "SetClaims succeeded but did not attach the claims")
		}
		// gate 2: ValidateAndEncodeClaimsToCBOR vs EncodeClaimsToCBOR
		sb, serr := psa.EncodeClaimsToCBOR(c)
		gb, gerr := psa.ValidateAndEncodeClaimsToCBOR(c)
		line += " venc=" + okErr(gerr)
		if (gerr == nil) != (valid && serr == nil) {
			fail("gate-iff-valid", fmt.Sprintf("ValidateAndEncodeClaimsToCBOR ok=%v, valid=%v, sibling ok=%v", gerr == nil, valid, serr == nil))
		}
		if gerr != nil && gb != nil {
			fail("no-bytes-on-failure", "ValidateAndEncodeClaimsToCBOR failed but returned bytes")
		}
		if gerr == nil && !bytes.Equal(gb, sb) {
			fail("like-sibling", "ValidateAndEncodeClaimsToCBOR differs from EncodeClaimsToCBOR")
		}
		// gate 3: JSON
		sj, sjerr := psa.EncodeClaimsToJSON(c)
		gj, gjerr := psa.ValidateAndEncodeClaimsToJSON(c)
		line += " vjenc=" + okErr(gjerr)
		if (gjerr == nil) != (valid && sjerr == nil) {
			fail("gate-iff-valid", fmt.Sprintf("ValidateAndEncodeClaimsToJSON ok=%v, valid=%v, sibling ok=%v", gjerr == nil, valid, sjerr == nil))
		}
		if gjerr != nil && gj != nil {
			fail("no-bytes-on-failure", "ValidateAndEncodeClaimsToJSON failed but returned bytes")
		}
		if gjerr == nil && !bytes.Equal(gj, sj) {
			fail("like-sibling", "ValidateAndEncodeClaimsToJSON differs from EncodeClaimsToJSON")
		}
		// gate 4: ValidateAndSign vs Sign
		ev2 := &psa.Evidence{Claims: c}
		tok, terr := ev2.ValidateAndSign(signer)
		line += " vsign=" + okErr(terr)
		if (terr == nil) != (valid && serr == nil) {
			fail("gate-iff-valid", fmt.Sprintf("ValidateAndSign ok=%v, valid=%v", terr == nil, valid))
		}
		if terr != nil && tok != nil {
			fail("no-bytes-on-failure", "ValidateAndSign failed but returned a token")
		}
		ev3 := &psa.Evidence{Claims: c}
		stok, sterr := ev3.Sign(signer)
		if terr == nil {
			if sterr != nil {
				fail("like-sibling", "ValidateAndSign succeeds where Sign fails")
			} else {
				m1, m2 := ev2.VerifMessage(), ev3.VerifMessage()
				if m1 == nil || m2 == nil || !bytes.Equal(m1.Payload, m2.Payload) || !bytes.Equal(m1.Payload, sb) {
					fail("like-sibling", "ValidateAndSign payload differs from Sign payload / the unvalidated encoding")
				}
				if ev2.Verify(pub) != nil {
					fail("like-sibling", "token of ValidateAndSign does not verify")
				}
			}
		}
		// gates 5-7: decode-and-validate variants on the sibling-encoded bytes
		dvc, dvj, dve := "na", "na", "na"
		if serr == nil {
			sc, sderr := psa.DecodeClaimsFromCBOR(append([]byte{}, sb...))
			gc, gderr := psa.DecodeAndValidateClaimsFromCBOR(append([]byte{}, sb...))
			dvc = okErr(gderr)
			wantOK := sderr == nil && sc.Validate() == nil
			if (gderr == nil) != wantOK {
				fail("gate-iff-valid", fmt.Sprintf("DecodeAndValidateClaimsFromCBOR ok=%v, decode ok=%v and valid=%v", gderr == nil, sderr == nil, wantOK))
			}
			if gderr != nil && gc != nil {
				fail("nothing-on-failure", "DecodeAndValidateClaimsFromCBOR failed but returned claims")
			}
			if gderr == nil && gc == nil {
				fail("like-sibling", "a decode-and-validate variant reports success and returns no claims")
			} else if gderr == nil && gettersOnly(observe(gc)) != gettersOnly(observe(sc)) {
				fail("like-sibling", "DecodeAndValidateClaimsFromCBOR result differs from DecodeClaimsFromCBOR")
			}
			if gderr == nil && gc != nil && sderr == nil {
				if why := encodingsDiffer(gc, sc); why != "" {
					fail("like-sibling", "DecodeAndValidateClaimsFromCBOR result differs from DecodeClaimsFromCBOR: "+why)
				}
			}
		}
		if sjerr == nil {
			sc, sderr := psa.DecodeClaimsFromJSON(append([]byte{}, sj...))
			gc, gderr := psa.DecodeAndValidateClaimsFromJSON(append([]byte{}, sj...))
			dvj = okErr(gderr)
			wantOK := sderr == nil && sc.Validate() == nil
			if (gderr == nil) != wantOK {
				fail("gate-iff-valid", fmt.Sprintf("DecodeAndValidateClaimsFromJSON ok=%v, decode ok=%v and valid=%v", gderr == nil, sderr == nil, wantOK))
			}
			if gderr != nil && gc != nil {
				fail("nothing-on-failure", "DecodeAndValidateClaimsFromJSON failed but returned claims")
			}
			if gderr == nil && gc == nil {
				fail("like-sibling", "a decode-and-validate variant reports success and returns no claims")
			} else if gderr == nil && gettersOnly(observe(gc)) != gettersOnly(observe(sc)) {
				fail("like-sibling", "DecodeAndValidateClaimsFromJSON result differs from DecodeClaimsFromJSON")
			}
			if gderr == nil && gc != nil && sderr == nil {
				if why := encodingsDiffer(gc, sc); why != "" {
					fail("like-sibling", "DecodeAndValidateClaimsFromJSON result differs from DecodeClaimsFromJSON: "+why)
				}
			}
			deprecatedAliases(r, "own JSON", sj)
		}
		if sterr == nil {
			se, sderr := psa.DecodeEvidenceFromCOSE(append([]byte{}, stok...))
			ge, gderr := psa.DecodeAndValidateEvidenceFromCOSE(append([]byte{}, stok...))
			dve = okErr(gderr)
			wantOK := sderr == nil && se.Claims.Validate() == nil
			if (gderr == nil) != wantOK {
				fail("gate-iff-valid", fmt.Sprintf("DecodeAndValidateEvidenceFromCOSE ok=%v, decode ok=%v and valid=%v", gderr == nil, sderr == nil, wantOK))
			}
			if gderr != nil && ge != nil {
				fail("nothing-on-failure", "DecodeAndValidateEvidenceFromCOSE failed but returned evidence")
			}
			if gderr == nil && (ge == nil || ge.Claims == nil) {
				fail("like-sibling", "DecodeAndValidateEvidenceFromCOSE reports success and returns no evidence")
			} else if gderr == nil && gettersOnly(observe(ge.Claims)) != gettersOnly(observe(se.Claims)) {
				fail("like-sibling", "DecodeAndValidateEvidenceFromCOSE result differs from DecodeEvidenceFromCOSE")
			}
			if gderr == nil && ge != nil && ge.Claims != nil && sderr == nil {
				if why := encodingsDiffer(ge.Claims, se.Claims); why != "" {
					fail("like-sibling", "DecodeAndValidateEvidenceFromCOSE result differs from DecodeEvidenceFromCOSE: "+why)
				}
			}
		}
		line += " dvc=" + dvc + " dvj=" + dvj + " dve=" + dve
		r.Case(class, ndev == 0, "gates "+d.Line(), line)
		for _, f := range fails {
			r.Fail(f[0], f[1])
		}
		// a gate consults the validator on every call: claims attached while valid and then changed
		// in place (the Evidence holds the very same object) must not get through ValidateAndSign
		if valid && rng.Chance(25) {
			bad := c19Claims(rng, false)
			for bad.P != d.P {
				bad = c19Claims(rng, false)
			}
			dd := d
			ops := []*evOp{{Kind: "setclaims", D: &dd}, {Kind: "mutate", D: bad}, {Kind: "vsign", Key: 0, Alg: keys()[0].algs[0], Mode: "good"},
				{Kind: "mutate", D: &dd}, {Kind: "vsign", Key: 0, Alg: keys()[0].algs[0], Mode: "good"}, {Kind: "verify", Key: 0},
				{Kind: "reattach"}, {Kind: "mutate", D: bad}, {Kind: "reattach"}}
			ev := &psa.Evidence{}
			res := make([]string, len(ops))
			protos := make([]string, len(ops))
			for i, o := range ops {
				res[i] = stepString(o, o.exec(ev))
				protos[i] = o.proto()
			}
			r.Case(class+"/mutated-after-attach", false, fmt.Sprintf("ev keys=%s ops=%s", keysProto(), strings.Join(protos, "|")),
				"r="+strings.Join(res, ",")+" claims="+evClaimsDesc(ev))
			if res[0] != "ok" || res[2] != "err" {
				r.Fail("gate-iff-valid", fmt.Sprintf("SetClaims(valid)=%s, then the attached object made invalid in place, ValidateAndSign=%s (must fail)", res[0], trunc(res[2], 8)))
			}
			if !strings.HasPrefix(res[4], "ok") || res[5] != "ok" {
				r.Fail("like-sibling", fmt.Sprintf("valid again: ValidateAndSign=%s Verify=%s", trunc(res[4], 8), res[5]))
			}
			if res[6] != "ok" || res[8] != "err" {
				r.Fail("gate-iff-valid", fmt.Sprintf("SetClaims of the object already attached: valid=%s, after it was made invalid in place=%s (must fail)", res[6], res[8]))
			}
		}
	})
	extGates(r, rng, map[bool]int{false: 200, true: 5000}[thorough])
}

// encodingsDiffer: two claims-sets that are to be "exactly alike" also encode alike (CBOR and JSON, verdict and bytes).
func encodingsDiffer(a, b psa.IClaims) string {
	var ab, bb, aj, bj []byte
	var e1, e2, e3, e4 error
	if p, _ := safely(func() {
		ab, e1 = psa.EncodeClaimsToCBOR(a)
		bb, e2 = psa.EncodeClaimsToCBOR(b)
		aj, e3 = psa.EncodeClaimsToJSON(a)
		bj, e4 = psa.EncodeClaimsToJSON(b)
	}); p {
		return ""
	}
	if (e1 == nil) != (e2 == nil) || (e1 == nil && !bytes.Equal(ab, bb)) {
		return fmt.Sprintf("CBOR encodings %x (%v) vs %x (%v)", ab, e1, bb, e2)
	}
	if (e3 == nil) != (e4 == nil) || (e3 == nil && !bytes.Equal(aj, bj)) {
		return fmt.Sprintf("JSON encodings %s (%v) vs %s (%v)", aj, e3, bj, e4)
	}
	return ""
}
