package main

// FilterError on arbitrary error values (C13, last sentence): error trees built
// by wrapping, joining and custom Is/Unwrap types.

import (
	"errors"
	"fmt"
	"strings"

	psa "github.com/veraison/psatoken"
)

var sentinels = []error{psa.ErrMissingOptional, psa.ErrMissingMandatory, psa.ErrNotInProfile, psa.ErrWrongProfile, psa.ErrWrongSyntax}
var derived = []error{psa.ErrOptionalClaimMissing, psa.ErrMandatoryClaimMissing, psa.ErrClaimNotInProfile,
	psa.ErrOptionalFieldMissing, psa.ErrMandatoryFieldMissing, psa.ErrFieldNotInProfile}
var derivedOf = []int{0, 1, 2, 0, 1, 2}

type customErr struct {
	claims int
	inner  error
}

func (c *customErr) Error() string        { return "custom" }
func (c *customErr) Is(target error) bool { return target == sentinels[c.claims] }
func (c *customErr) Unwrap() error        { return c.inner }

type errTree struct {
	kind string // S D O W V J M C
	idx  int
	kids []*errTree
}

func (t *errTree) String() string {
	switch t.kind {
	case "S", "D":
		return fmt.Sprintf("%s%d", t.kind, t.idx)
	case "O":
		return "O"
	case "C":
		if len(t.kids) == 0 {
			return fmt.Sprintf("C%d()", t.idx)
		}
		return fmt.Sprintf("C%d(%s)", t.idx, t.kids[0])
	}
	parts := make([]string, len(t.kids))
	for i, k := range t.kids {
		parts[i] = k.String()
	}
	return t.kind + "(" + strings.Join(parts, ",") + ")"
}

func (t *errTree) build() error {
	switch t.kind {
	case "S":
		return sentinels[t.idx]
	case "D":
		return derived[t.idx]
	case "O":
		return errors.New("opaque")
	case "W":
		return fmt.Errorf("ctx: %w", t.kids[0].build())
	case "V":
		return fmt.Errorf("ctx: %v", t.kids[0].build())
	case "J":
		es := make([]error, len(t.kids))
		for i, k := range t.kids {
			es[i] = k.build()
		}
		return errors.Join(es...)
	case "M":
		return fmt.Errorf("a: %w, b: %w", t.kids[0].build(), t.kids[1].build())
	case "C":
		if len(t.kids) == 0 {
			return &customErr{claims: t.idx}
		}
		return &customErr{claims: t.idx, inner: t.kids[0].build()}
	}
	panic("bad tree")
}

// is: the harness's own reading of errors.Is on the tree (independent of the Lean model)
func (t *errTree) is(s int) bool {
	switch t.kind {
	case "S":
		return t.idx == s
	case "D":
		return derivedOf[t.idx] == s
	case "O", "V":
		return false
	case "C":
		if t.idx == s {
			return true
		}
		return len(t.kids) > 0 && t.kids[0].is(s)
	}
	for _, k := range t.kids {
		if k.is(s) {
			return true
		}
	}
	return false
}

func genErrTree(r *Rng, depth int) *errTree {
	if depth <= 0 || r.Chance(30) {
		switch r.Intn(4) {
		case 0:
			return &errTree{kind: "S", idx: r.Intn(5)}
		case 1:
			return &errTree{kind: "D", idx: r.Intn(6)}
		case 2:
			return &errTree{kind: "O"}
		default:
			return &errTree{kind: "C", idx: r.Intn(5)}
		}
	}
	switch r.Intn(6) {
	case 0, 1:
		return &errTree{kind: "W", kids: []*errTree{genErrTree(r, depth-1)}}
	case 2:
		return &errTree{kind: "V", kids: []*errTree{genErrTree(r, depth-1)}}
	case 3:
		n := 1 + r.Intn(3)
		t := &errTree{kind: "J"}
		for i := 0; i < n; i++ {
			t.kids = append(t.kids, genErrTree(r, depth-1))
		}
		return t
	case 4:
		return &errTree{kind: "M", kids: []*errTree{genErrTree(r, depth-1), genErrTree(r, depth-1)}}
	default:
		return &errTree{kind: "C", idx: r.Intn(5), kids: []*errTree{genErrTree(r, depth-1)}}
	}
}

func runFilterCases(r *Run, rng *Rng, thorough bool) {
	n := 4000
	if thorough {
		n = 200000
	}
	check := func(class, line string, e error, want func(s int) bool) {
		got := psa.FilterError(nil, e)
		res := "same"
		if got == nil {
			res = "nil"
		} else if got != e {
			res = "other"
		}
		m := 0
		if e != nil {
			m = errMask(e)
		}
		r.Case(class, false, line, fmt.Sprintf("filter=%s mask=%d", res, m))
		wantNil := e == nil || want(0) || want(2)
		if (got == nil) != wantNil {
			r.Fail("filter-nil-iff", fmt.Sprintf("FilterError returns nil=%v, expected nil=%v", got == nil, wantNil))
		} else if got != nil && got != e {
			r.Fail("filter-unchanged", "FilterError returned a different error value")
		}
		for s := 0; s < 5; s++ {
			if e != nil && errors.Is(e, sentinels[s]) != want(s) {
				r.Fail("errors-is", fmt.Sprintf("errors.Is(tree, sentinel %d) = %v, tree reading says %v", s, !want(s), want(s)))
			}
		}
	}
	check("filter/nil", "filter nil", nil, func(int) bool { return false })
	for i := 0; i < 5; i++ {
		t := &errTree{kind: "S", idx: i}
		check("filter/sentinel", "filter "+t.String(), t.build(), t.is)
	}
	for i := 0; i < 6; i++ {
		t := &errTree{kind: "D", idx: i}
		check("filter/derived", "filter "+t.String(), t.build(), t.is)
	}
	for i := 0; i < n; i++ {
		t := genErrTree(rng, 1+rng.Intn(5))
		check("filter/tree", "filter "+t.String(), t.build(), t.is)
	}
}
