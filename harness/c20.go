package main

import (
	"fmt"
	"os"
	"path/filepath"

	psa "github.com/veraison/psatoken"
)

func init() { props["C20"] = runC20 }

// sign1Shape: the independent judgement "tag-18 array of exactly four elements — protected bstr,
// unprotected map, bstr payload, non-empty bstr signature — nothing after it, payload a CBOR map".
func sign1Shape(b []byte) (bool, string) {
	n, rest, err := parseNode(b, 0)
	if err != nil {
		return false, "not well-formed CBOR"
	}
	if len(rest) != 0 {
		return false, "trailing bytes"
	}
	if n.Kind != kTag || n.N != 18 {
		return false, "not tag 18"
	}
	a := n.Kids[0]
	if a.Kind != kArr || len(a.Kids) != 4 {
		return false, "not an array of four"
	}
	if a.Kids[0].Kind != kBstr {
		return false, "protected header is not a byte string"
	}
	if a.Kids[1].Kind != kMap {
		return false, "unprotected header is not a map"
	}
	if a.Kids[2].Kind != kBstr {
		return false, "payload is not a byte string"
	}
	if a.Kids[3].Kind != kBstr || len(a.Kids[3].B) == 0 {
		return false, "signature is not a non-empty byte string"
	}
	pn, prest, perr := parseNode(a.Kids[2].B, 0)
	if perr != nil || len(prest) != 0 {
		return false, "payload is not one well-formed CBOR item"
	}
	if pn.Kind != kMap { // a tag around a map is not a map
		return false, "payload is not a claims map"
	}
	return true, ""
}

func runC20(r *Run, rng *Rng, thorough bool) {
	// three base tokens: profile 2 (explicit profile claim), profile 1 with and without the profile claim
	var bases []*ClaimsDesc
	for len(bases) < 3 {
		d := c19Claims(rng, true)
		switch len(bases) {
		case 0:
			if d.P != 2 {
				continue
			}
		case 1:
			if d.P != 1 || d.Prof == nil {
				continue
			}
		default:
			if d.P != 1 || d.Prof != nil {
				continue
			}
		}
		bases = append(bases, d)
	}
	for i, d := range bases {
		runC20On(r, rng, thorough, d, i == 0)
	}
}

func runC20On(r *Run, rng *Rng, thorough bool, d *ClaimsDesc, first bool) {
	ks := keys()
	tok, _, _ := signedToken(d, ks[0], ks[0].algs[0])
	prot, payload, sig, _ := envelopeParts(tok)
	try := func(class string, b []byte) {
		var err error
		res := "reject"
		pan, _ := safely(func() { _, err = psa.DecodeEvidenceFromCOSE(append([]byte{}, b...)) })
		if pan {
			res = "panic"
		} else if err == nil {
			res = "accept"
		}
		r.Case(class, false, "envelope "+hx(b), res)
		// the verdict does not depend on what the Evidence held before: the same bytes into an Evidence that already
		// carries claims (attached, or left by an earlier successful decode)
		if !pan {
			for hi, prep := range []func() *psa.Evidence{
				func() *psa.Evidence { ev := &psa.Evidence{}; _ = ev.SetClaims(d.Build()); return ev },
				func() *psa.Evidence { ev := &psa.Evidence{}; _ = ev.UnmarshalCOSE(append([]byte{}, tok...)); return ev },
			} {
				ev := prep()
				var herr error
				hpan, _ := safely(func() { herr = ev.UnmarshalCOSE(append([]byte{}, b...)) })
				hres := "reject"
				if hpan {
					hres = "panic"
				} else if herr == nil {
					hres = "accept"
				}
				if hres != res {
					r.Fail("accepts-only-sign1", fmt.Sprintf("UnmarshalCOSE on an Evidence that already holds claims (history %d): %s, on a fresh Evidence: %s", hi, hres, res))
				}
			}
		}
		if res == "accept" {
			if ok, why := sign1Shape(b); !ok {
				sig := ""
				if why == "payload is not a claims map" {
					if p, _, _, okp := envelopeParts(b); okp || p == nil {
						_, pl, _, _ := envelopeParts(b)
						if len(pl) == 1 && (pl[0] == 0xf6 || pl[0] == 0xf7) {
							sig = "C20:null-payload-item"
						}
					}
				}
				r.FailSig("accepts-only-sign1", "accepted although "+why, sig)
			}
		}
	}
	// the same buffer presented again after it was changed in place: an Evidence decodes what the buffer holds now
	{
		ev := &psa.Evidence{}
		buf := append([]byte{}, tok...)
		if err := ev.UnmarshalCOSE(buf); err == nil {
			type corr struct {
				what string
				f    func(b []byte)
			}
			for _, cr := range []corr{
				{"tag 18 turned into tag 17 (COSE_Mac0)", func(b []byte) { b[0] = 0xd1 }},
				{"tag turned into an array head (untagged)", func(b []byte) { b[0] = 0x81 }},
				{"array of four turned into an array of five", func(b []byte) { b[1] = 0x85 }},
				{"protected header bytes changed", func(b []byte) { b[3] ^= 0x01 }},
				{"all bytes zero", func(b []byte) {
					for i := range b {
						b[i] = 0
					}
				}},
				{"last signature byte changed", func(b []byte) { b[len(b)-1] ^= 0xff }},
			} {
				copy(buf, tok)
				if ev.UnmarshalCOSE(buf) != nil {
					break
				}
				cr.f(buf)
				fresh := "reject"
				if _, err := psa.DecodeEvidenceFromCOSE(append([]byte{}, buf...)); err == nil {
					fresh = "accept"
				}
				again := "reject"
				if err := ev.UnmarshalCOSE(buf); err == nil {
					again = "accept"
				}
				r.ImplOnly("same-buffer-again", false, "same-buffer-again "+cr.what)
				if again != fresh {
					r.Fail("accepts-only-sign1", fmt.Sprintf("%s in place, same buffer presented again to the Evidence that had decoded it: %s (a fresh Evidence: %s)", cr.what, again, fresh))
				} else if again == "accept" && cr.what == "last signature byte changed" && ev.Verify(ks[0].pub) == nil {
					r.Fail("accepts-only-sign1", "the Evidence verifies although the signature bytes in the buffer it decoded were changed")
				}
			}
		}
	}
	good := []*Node{nBstr(prot), nMap(), nBstr(payload), nBstr(sig)}
	body := func() *Node { return nArr(good[0].clone(), good[1].clone(), good[2].clone(), good[3].clone()) }
	// every tag 0..30 and none; other tags
	try("untagged", body().Bytes())
	for t := uint64(0); t <= 30; t++ {
		try(fmt.Sprintf("tag-%d", t), nTag(t, body()).Bytes())
	}
	for _, t := range []uint64{61, 96, 97, 98, 16, 17, 55799, 1 << 32} {
		try("tag-other", nTag(t, body()).Bytes())
	}
	try("tag-18-twice", nTag(18, nTag(18, body())).Bytes())
	try("tag-55799-18", nTag(55799, nTag(18, body())).Bytes())
	// head widths of the tag and the array
	for _, w := range []int{1, 2, 4, 8} {
		t := nTag(18, body())
		t.W = w
		try("tag-head-width", t.Bytes())
		t = nTag(18, body())
		t.Kids[0].W = w
		try("array-head-width", t.Bytes())
	}
	{
		t := nTag(18, body())
		t.Kids[0].Indef = true
		try("array-indefinite", t.Bytes())
	}
	// array lengths 0..6
	for n := 0; n <= 6; n++ {
		a := &Node{Kind: kArr}
		for i := 0; i < n; i++ {
			if i < 4 {
				a.Kids = append(a.Kids, good[i].clone())
			} else {
				a.Kids = append(a.Kids, nBstr([]byte{1}))
			}
		}
		try(fmt.Sprintf("array-len-%d", n), nTag(18, a).Bytes())
	}
	// each element replaced by every other CBOR type / null / empty
	repl := append([]*Node{}, wrongPool...)
	repl = append(repl, nBstr(nil), nBstr(payload), nMap([2]*Node{nUint(1), nInt(-7)}), nBstr(nMap().Bytes()), nBstr([]byte{0xa0, 0x00}),
		nBstr(nArr().Bytes()), nBstr([]byte{0xf6}), nBstr([]byte{0xf7}), nBstr(nUint(1).Bytes()), nBstr(nTstr("x").Bytes()),
		nBstr(nBstr(payload).Bytes()), nBstr(nBstr(nBstr(payload).Bytes()).Bytes()), nBstr(nTag(55799, mustParse(payload)).Bytes()),
		nBstr(append(append([]byte{}, payload...), 0)), nBstr(payload[:len(payload)-1]), nBstr(tok))
	for _, t := range []uint64{0, 1, 2, 18, 24, 32, 61, 399, 601, 1 << 40} {
		repl = append(repl, nBstr(nTag(t, mustParse(payload)).Bytes()))
	}
	repl = append(repl, nBstr(nTag(55799, nTag(61, mustParse(payload))).Bytes()), nBstr(nArr(mustParse(payload)).Bytes()),
		nBstr(nTag(24, nBstr(payload)).Bytes()))
	for i := 0; i < 4; i++ {
		for _, w := range repl {
			a := body()
			a.Kids[i] = w.clone()
			try(fmt.Sprintf("element-%d/%s", i, kindName(w)), nTag(18, a).Bytes())
		}
	}
	// non-shortest / indefinite element encodings
	for i := 0; i < 4; i++ {
		for _, w := range []int{1, 2, 4, 8} {
			a := body()
			a.Kids[i].W = w
			try("element-head-width", nTag(18, a).Bytes())
		}
		a := body()
		a.Kids[i].Indef = true
		try("element-indefinite", nTag(18, a).Bytes())
	}
	// trailing bytes, truncation
	for _, x := range [][]byte{{0}, {0xf6}, tok, []byte("\r\n"), []byte("\n\n"), []byte("\r\n\r\n"), []byte(" \n"), {0, 0}, {0xff, 0xff}, {0xf6, 0x0a}} {
		try("trailing", append(append([]byte{}, tok...), x...))
	}
	for x := 0; x < 256; x++ { // every single trailing byte (line ends, padding, break, pad-like simple values)
		try("trailing-byte", append(append([]byte{}, tok...), byte(x)))
	}
	for n := 0; n < len(tok); n += 1 + len(tok)/60 {
		try("truncated", tok[:n])
	}
	// COSE_Mac0 (tag 17, tag-sized), COSE_Sign (tag 98: [prot, unprot, payload, [signatures]])
	try("cose-mac0", nTag(17, body()).Bytes())
	try("cose-sign", nTag(98, nArr(good[0].clone(), nMap(), good[2].clone(), nArr(nArr(nBstr(prot), nMap(), nBstr(sig))))).Bytes())
	try("cose-sign-as-18", nTag(18, nArr(good[0].clone(), nMap(), good[2].clone(), nArr(nArr(nBstr(prot), nMap(), nBstr(sig))))).Bytes())
	// the TF-M vectors shipped with the repository (Sign1 and the unused Mac0 files)
	repo := os.Getenv("VERIF_REPO")
	if repo == "" {
		repo = "/repo"
	}
	files, _ := filepath.Glob(filepath.Join(repo, "testvectors", "cbor", "*.cbor"))
	more, _ := filepath.Glob(filepath.Join(repo, "testvectors", "*", "*.cbor"))
	files = append(files, more...)
	seen := map[string]bool{}
	for _, f := range files {
		if seen[f] {
			continue
		}
		seen[f] = true
		b, err := os.ReadFile(f)
		if err == nil {
			try("testvector/"+filepath.Base(f), b)
		}
	}
	// random mutations of the good token
	nMut := 1500
	if thorough {
		nMut = 100000
	}
	if !first {
		nMut /= 3
	}
	for i := 0; i < nMut; i++ {
		v := append([]byte{}, tok...)
		for j := 0; j < 1+rng.Intn(3); j++ {
			switch rng.Intn(3) {
			case 0:
				v[rng.Intn(min(len(v), 12))] = byte(rng.U64())
			case 1:
				v[rng.Intn(len(v))] = byte(rng.U64())
			default:
				p := rng.Intn(len(v))
				v = append(v[:p:p], v[p+1:]...)
			}
		}
		try("random-mutation", v)
	}
}

func mustParse(b []byte) *Node {
	n, _, err := parseNode(b, 0)
	if err != nil {
		panic(err)
	}
	return n
}
