package main

import (
	"errors"
	"fmt"

	psa "github.com/veraison/psatoken"
)

func init() { props["C14"] = runC14 }

var lcNames = []string{"unknown", "assembly-and-test", "psa-rot-provisioning", "secured",
	"non-psa-rot-debug", "recoverable-psa-rot-debug", "decommissioned", "invalid"}

// the specification, as the property words it: by the high byte
func lcSpec(v uint16) int {
	hi := v >> 8
	if v&0xff00 == uint16(hi)<<8 && hi%0x10 == 0 && hi/0x10 <= 6 {
		return int(hi / 0x10)
	}
	return 7
}

func runC14(r *Run, rng *Rng, thorough bool) {
	for i := 0; i < 65536; i++ {
		v := uint16(i)
		st := psa.LifeCycleToState(v)
		verr := psa.ValidateSecurityLifeCycle(v)
		spec := lcSpec(v)
		class := "interior"
		if v&0xff == 0 || v&0xff == 0xff {
			class = "range-edge"
		}
		if spec == 7 {
			class = "outside:" + class
		}
		// setters and getters of both profiles
		sg := ""
		var accept [4]bool
		var got [4]uint16
		for pi, pname := range []string{psa.Profile1Name, psa.Profile2Name} {
			c, err := psa.NewClaims(pname)
			if err != nil {
				r.Case(class, false, fmt.Sprintf("lc %d", v), "newclaims-failed")
				r.Fail("newclaims", err.Error())
				continue
			}
			serr := c.SetSecurityLifeCycle(v)
			g, gerr := c.GetSecurityLifeCycle()
			accept[pi*2] = serr == nil
			if serr == nil {
				if gerr != nil {
					sg += fmt.Sprintf(" p%dset=ok p%dget=%s", pi+1, pi+1, fmtErr(gerr))
				} else {
					sg += fmt.Sprintf(" p%dset=ok p%dget=ok:%d", pi+1, pi+1, g)
				}
				got[pi*2] = g
			} else {
				sg += fmt.Sprintf(" p%dset=%s p%dget=%s", pi+1, fmtErr(serr), pi+1, fmtErr(gerr))
			}
			// getter on a directly constructed claims-set holding v
			// getter on a directly constructed claims-set holding v (built by field name: the check
			// must still build when the field's type changes)
			dd := ClaimsDesc{P: pi + 1, Canon: canonOf(pi + 1), LC: u16p(v), SwKind: SwNilIface}
			c2 := dd.Build()
			g2, g2err := c2.GetSecurityLifeCycle()
			accept[pi*2+1] = g2err == nil
			got[pi*2+1] = g2
			if g2err == nil {
				sg += fmt.Sprintf(" p%draw=ok:%d", pi+1, g2)
			} else {
				sg += fmt.Sprintf(" p%draw=%s", pi+1, fmtErr(g2err))
			}
		}
		res := fmt.Sprintf("state=%d name=%s valid=%v validate=%s spec=%d%s", st, st.String(), st.IsValid(), fmtErr(verr), spec, sg)
		r.Case(class, false, fmt.Sprintf("lc %d", v), res)

		// P_impl: the property itself, on the implementation
		if int(st) != spec {
			r.Fail("state-table", fmt.Sprintf("LifeCycleToState(0x%04x)=%d, specified %d", v, st, spec))
		}
		if st.String() != lcNames[spec] {
			r.Fail("state-name", fmt.Sprintf("state of 0x%04x prints %q, specified %q", v, st.String(), lcNames[spec]))
		}
		if st.IsValid() != (spec != 7) {
			r.Fail("is-valid", fmt.Sprintf("IsValid of state of 0x%04x = %v", v, st.IsValid()))
		}
		if (verr == nil) != (spec != 7) {
			r.Fail("validator", fmt.Sprintf("ValidateSecurityLifeCycle(0x%04x) = %v", v, verr))
		}
		if verr != nil && !errors.Is(verr, psa.ErrWrongSyntax) {
			r.Fail("validator-class", fmt.Sprintf("error for 0x%04x is not wrong-syntax", v))
		}
		for k, a := range accept {
			if a != (spec != 7) {
				r.Fail("setter-getter", fmt.Sprintf("accessor %d accepts 0x%04x = %v, state valid = %v", k, v, a, spec != 7))
			}
			if a && got[k] != v {
				r.Fail("setter-getter-value", fmt.Sprintf("accessor %d returns 0x%04x for 0x%04x", k, got[k], v))
			}
		}
	}
	// codes beyond the declared states print as invalid
	for _, o := range []uint16{7, 8, 255, 256, 65535} {
		s := psa.LifeCycleState(o)
		r.Case("state-code-out-of-range", false, fmt.Sprintf("lcname %d", o), fmt.Sprintf("name=%s valid=%v", s.String(), s.IsValid()))
		if s.String() != "invalid" || s.IsValid() {
			r.Fail("state-name", fmt.Sprintf("state code %d prints %q valid=%v", o, s.String(), s.IsValid()))
		}
	}
	// the setters do not depend on what the claims-set already holds: every value, on objects pre-loaded (by field,
	// as a non-validating decode would) with a value of each of the eight states and with nothing
	pre := []*uint16{nil, u16p(0x0000), u16p(0x10ff), u16p(0x2080), u16p(0x3000), u16p(0x4001), u16p(0x50fe), u16p(0x6000),
		u16p(0x0100), u16p(0x7000), u16p(0x8a47), u16p(0xffff)}
	for pi := 0; pi < 2; pi++ {
		for _, pv := range pre {
			bad := 0
			first := ""
			for i := 0; i < 65536; i++ {
				v := uint16(i)
				dd := ClaimsDesc{P: pi + 1, Canon: canonOf(pi + 1), LC: pv, SwKind: SwNilIface}
				c := dd.Build()
				serr := c.SetSecurityLifeCycle(v)
				want := lcSpec(v) != 7
				ok := (serr == nil) == want
				if ok && serr == nil {
					g, gerr := c.GetSecurityLifeCycle()
					ok = gerr == nil && g == v
				}
				if ok && serr != nil {
					// unchanged on failure
					after, _ := DescOf(c)
					ok = (after.LC == nil) == (pv == nil) && (pv == nil || *after.LC == *pv)
				}
				if !ok {
					bad++
					if first == "" {
						first = fmt.Sprintf("0x%04x (setter err=%v, state valid=%v)", v, serr, want)
					}
				}
			}
			held := "nothing"
			if pv != nil {
				held = fmt.Sprintf("0x%04x", *pv)
			}
			r.ImplOnly("setter-on-preloaded", false, fmt.Sprintf("profile %d holding %s: SetSecurityLifeCycle over all 65536 values", pi+1, held))
			if bad > 0 {
				r.Fail("setter-getter", fmt.Sprintf("profile %d claims-set already holding %s: the setter misjudges %d values, first %s", pi+1, held, bad, first))
			}
		}
	}
	r.extra["exhaustive"] = true
	for p := 1; p <= 2; p++ {
		d := baseValid(rng, p)
		d.Canon, d.Prof = canonOf(p), sp(canonOf(p))
		normalise(&d)
		if !conformant(&d) || hasBadUTF8(&d) {
			continue
		}
		key := map[int]int64{1: -75002, 2: 2395}[p]
		for _, wide := range []uint64{0x10000, 0x13000, 0x1ffff, 0x100003000, 1<<63 + 0x3000} {
			t := tokenOf(&d)
			setKey(t, key, nUint(wide))
			r.ImplOnly(fmt.Sprintf("wide-on-the-wire/p%d", p), false, fmt.Sprintf("lc-wide p=%d %d", p, wide))
			if c, err := psa.DecodeAndValidateClaimsFromCBOR(t.Bytes()); err == nil {
				lc, _ := c.GetSecurityLifeCycle()
				r.Fail("setter-getter", fmt.Sprintf("profile %d: a token carrying the lifecycle value %d (beyond 16 bits) is accepted and reads as 0x%04x", p, wide, lc))
			}
			j := jsonOf(&d)
			j.set("psa-security-lifecycle", &JTree{Kind: jNumOther, Raw: fmt.Sprint(wide)})
			if c, err := psa.DecodeAndValidateClaimsFromJSON([]byte(j.Text())); err == nil {
				lc, _ := c.GetSecurityLifeCycle()
				r.Fail("setter-getter", fmt.Sprintf("profile %d: a JSON token carrying the lifecycle value %d is accepted and reads as 0x%04x", p, wide, lc))
			}
		}
	}
}
