package main

import (
	"fmt"
	"sort"
	"strings"

	psa "github.com/veraison/psatoken"
)

func init() { props["C04"] = runC04 }

// decvResult: what the implementation does with token bytes.
type decvResult struct {
	line     string
	decOK    bool
	accepted bool
	panicked bool
	claims   psa.IClaims
	desc     ClaimsDesc
	descOK   bool
	obs      obsRes
}

func decv(buf []byte) decvResult {
	var r decvResult
	var c psa.IClaims
	var err error
	in := append([]byte{}, buf...)
	if p, _ := safely(func() { c, err = psa.DecodeClaimsFromCBOR(in) }); p {
		r.panicked = true
		r.line = "dec=panic"
		return r
	}
	if err != nil {
		r.line = "dec=err"
		return r
	}
	r.decOK = true
	r.claims = c
	r.desc, r.descOK = DescOf(c)
	r.obs = observe(c)
	if r.obs.VPanic {
		r.panicked = true
	}
	var c2 psa.IClaims
	var err2 error
	if p, _ := safely(func() { c2, err2 = psa.DecodeAndValidateClaimsFromCBOR(append([]byte{}, buf...)) }); p {
		r.panicked = true
	} else {
		r.accepted = err2 == nil && c2 != nil
	}
	ds := "ood"
	if r.descOK {
		ds = strings.ReplaceAll(r.desc.Line(), " ", ";")
	}
	acc := "rejected"
	if r.accepted {
		acc = "accepted"
	}
	if r.panicked {
		acc = "panic"
	}
	r.line = "dec=ok:" + ds + " " + acc + " " + r.obs.String()
	return r
}

// ---- generator ----

var wrongPool []*Node

func init() {
	big32 := make([]*Node, 32)
	for i := range big32 {
		big32[i] = nUint(uint64(i))
	}
	arr33 := make([]*Node, 33)
	arr33[0] = nUint(1)
	for i := 1; i < 33; i++ {
		arr33[i] = nUint(uint64(i + 3))
	}
	wrongPool = []*Node{
		nNull(), nUndef(), nSimple(20), nSimple(21),
		nUint(0), nUint(1), nUint(23), nUint(24), nUint(255), nUint(256), nUint(0x3000), nUint(65535), nUint(65536),
		nUint(1<<31 - 1), nUint(1 << 31), nUint(1<<32 - 1), nUint(1 << 32), nUint(0x13000), nUint(1<<63 - 1), nUint(1 << 63), nUint(^uint64(0)),
		nNint(0), nNint(1<<31 - 1), nNint(1 << 31), nNint(1<<63 - 1), nNint(1 << 63), nNint(^uint64(0)),
		nBstr(nil), nBstr(fill(8, 1)), nBstr(fill(32, 1)), nBstr(instOf(33, 1, 5)), nBstr(fill(64, 9)),
		nTstr(""), nTstr("abc"), nTstr(ean13), nTstr(ean13p5), nTstr(psa.Profile1Name), nTstr(psa.Profile2Name), nTstr("\xff"), nTstr("http://arm.com/psa/3.0.0"),
		nArr(), nArr(nUint(1), nUint(2), nUint(3)), nArr(big32...), nArr(arr33...), nArr(nNull()), nArr(nBstr(fill(32, 3))), nArr(nBstr(fill(32, 3)), nBstr(fill(48, 4))),
		nArr(nUint(256)), nArr(nNint(0)), nArr(nSimple(5)), nArr(nArr()),
		nMap(), nMap([2]*Node{nUint(1), nUint(2)}),
		nTag(0, nTstr("x")), nTag(55799, nBstr(fill(32, 1))), nTag(2, nBstr([]byte{1, 0})), nTag(37, nBstr(fill(32, 2))),
		nSimple(0), nSimple(5), nSimple(19), nSimple(32), nSimple(255),
		{Kind: kF16, N: 0x3c00}, {Kind: kF16, N: 0}, {Kind: kF32, N: 0x3f800000}, {Kind: kF64, N: 0x3ff0000000000000}, {Kind: kF64, N: 0x7ff8000000000000},
		{Kind: kF64, N: 0x40c8000000000000}, // 12288.0 = 0x3000
	}
}

func setKey(m *Node, k int64, v *Node) {
	for i, p := range m.Pairs {
		if p[0].isInt(k) {
			m.Pairs[i][1] = v
			return
		}
	}
	m.Pairs = append(m.Pairs, [2]*Node{nInt(k), v})
}
func delKey(m *Node, k int64) {
	for i, p := range m.Pairs {
		if p[0].isInt(k) {
			m.Pairs = append(m.Pairs[:i:i], m.Pairs[i+1:]...)
			return
		}
	}
}
func shuffle(r *Rng, m *Node) {
	for j := len(m.Pairs) - 1; j > 0; j-- {
		k := r.Intn(j + 1)
		m.Pairs[j], m.Pairs[k] = m.Pairs[k], m.Pairs[j]
	}
}

func unknownKeyPool(r *Rng) *Node {
	switch r.Intn(12) {
	case 0:
		return nUint(uint64(r.Intn(9)) + 11)
	case 1:
		return nUint(2401 + uint64(r.Intn(50)))
	case 2:
		return nNint(uint64(75011 + r.Intn(50)))
	case 3:
		return nNint(uint64(74990 + r.Intn(9)))
	case 4:
		return nTstr(Pick(r, []string{"", "x", "psa-nonce", "eat-profile", "é"}))
	case 5:
		return nUint(uint64(r.U64()))
	case 6:
		return nNint(uint64(r.U64() >> 1))
	case 7:
		return nUint(266 + uint64(r.Intn(100)))
	case 8:
		return nUint(0)
	case 9:
		return nNint(0)
	case 10:
		return nTstr(Pick(r, []string{"2394", "265", "-75002", "10", "-75008", "2399", "256"})) // decimal text of a claim key
	default:
		return nUint(^uint64(0) - uint64(75000+r.Intn(11)) + 1) // 2^64 - 75000 - i
	}
}

func anyValue(r *Rng) *Node { return Pick(r, wrongPool).clone() }

type tokCase struct {
	class string
	n     *Node
	extra []byte // trailing bytes
}

func genTokens(rng *Rng, thorough bool, emit func(tc tokCase)) {
	nRandom := 8000
	if thorough {
		nRandom = 600000
	}
	for p := 1; p <= 2; p++ {
		keys := p1KeyList
		other := p2KeyList
		if p == 2 {
			keys, other = p2KeyList, p1KeyList
		}
		pn := fmt.Sprintf("p%d/", p)
		base := func() *Node {
			d := baseValid(rng, p)
			d.Canon = canonOf(p)
			if d.Prof != nil {
				d.Prof = sp(d.Canon)
			}
			normalise(&d)
			return tokenOf(&d)
		}
		fullBase := func() *Node {
			d := baseValid(rng, p)
			d.Canon = canonOf(p)
			d.Prof = sp(d.Canon)
			if d.Boot == nil {
				d.Boot = bp(fill(32, 4))
			}
			d.Cert, d.VSI = sp(ean13p5), sp("vsi")
			if p == 1 && d.NoSw == nil && rng.Bool() {
				d.NoSw, d.SwKind, d.Sw = uip(1), SwNilSlice, nil
			}
			normalise(&d)
			return tokenOf(&d)
		}
		// valid tokens, both optional subsets, key order as is / permuted
		for i := 0; i < 40; i++ {
			t := base()
			emit(tokCase{class: pn + "valid", n: t})
			t2 := t.clone()
			shuffle(rng, t2)
			emit(tokCase{class: pn + "valid-permuted", n: t2})
		}
		// every key x {absent, every value of the pool}
		for _, k := range keys {
			t := fullBase()
			delKey(t, k)
			emit(tokCase{class: pn + "key-absent", n: t})
			for _, w := range wrongPool {
				t := fullBase()
				setKey(t, k, w.clone())
				if rng.Chance(30) {
					shuffle(rng, t)
				}
				emit(tokCase{class: pn + "key-value/" + kindName(w), n: t})
			}
		}
		// boundary values of the right type
		for n := 0; n <= 80; n++ {
			for _, k := range byteKeys(p) {
				t := fullBase()
				b := fill(n, 7)
				if k == 256 || k == -75009 {
					b = instOf(n, 1, 7)
				}
				setKey(t, k, nBstr(b))
				emit(tokCase{class: pn + "bstr-length", n: t})
			}
		}
		lcKey, cidKey := int64(-75002), int64(-75001)
		if p == 2 {
			lcKey, cidKey = 2395, 2394
		}
		for _, v := range append(append([]uint16{}, lcValidEdges...), lcInvalidEdges...) {
			t := fullBase()
			setKey(t, lcKey, nUint(uint64(v)))
			emit(tokCase{class: pn + "lifecycle", n: t})
		}
		for _, v := range []int64{0, -1, 23, 24, -24, -25, 255, 256, 1<<31 - 1, -(1 << 31)} {
			t := fullBase()
			setKey(t, cidKey, nInt(v))
			emit(tokCase{class: pn + "client-id", n: t})
		}
		// non-shortest heads on every top-level value and key
		for _, w := range []int{1, 2, 4, 8} {
			t := fullBase()
			for _, pr := range t.Pairs {
				if pr[0].N < 1<<(8*uint(w)) || w == 8 {
					pr[0].W = w
				}
				if pr[1].Kind == kUint && (pr[1].N < 1<<(8*uint(w)) || w == 8) {
					pr[1].W = w
				}
				if (pr[1].Kind == kBstr || pr[1].Kind == kTstr) && w >= 1 {
					pr[1].W = w
				}
			}
			t.W = w
			emit(tokCase{class: pn + "head-width", n: t})
		}
		// indefinite lengths: the map, a byte string, a text string, the component array
		{
			t := fullBase()
			t.Indef = true
			emit(tokCase{class: pn + "indefinite-map", n: t})
			for _, pr := range fullBase().Pairs {
				t := fullBase()
				k, _ := keyInt(pr[0])
				v := lookupInt(t, k)
				if v != nil && (v.Kind == kBstr || v.Kind == kTstr || v.Kind == kArr) {
					v.Indef = true
					emit(tokCase{class: pn + "indefinite-value", n: t})
				}
			}
		}
		// trailing bytes, truncation
		{
			t := fullBase()
			emit(tokCase{class: pn + "trailing", n: t, extra: []byte{0}})
			emit(tokCase{class: pn + "trailing", n: t, extra: []byte{0xf6}})
			emit(tokCase{class: pn + "trailing", n: t, extra: t.Bytes()})
		}
		// unknown keys (int and text, incl. decimal-text and wrapped aliases of claim keys), other profile's keys
		for i := 0; i < 400; i++ {
			t := base()
			n := 1 + rng.Intn(3)
			for j := 0; j < n; j++ {
				pr := [2]*Node{unknownKeyPool(rng), anyValue(rng)}
				pos := rng.Intn(len(t.Pairs) + 1)
				t.Pairs = append(t.Pairs[:pos:pos], append([][2]*Node{pr}, t.Pairs[pos:]...)...)
			}
			emit(tokCase{class: pn + "unknown-keys", n: t})
		}
		for i := 0; i < 60; i++ {
			t := base()
			for j := 0; j < 1+rng.Intn(3); j++ {
				k := Pick(rng, other)
				if k == 265 {
					continue
				}
				t.Pairs = append(t.Pairs, [2]*Node{nInt(k), anyValue(rng)})
			}
			shuffle(rng, t)
			emit(tokCase{class: pn + "mixed-profile-keys", n: t})
		}
		// an unknown key whose value nests arrays / maps / tags to depth 1..16: ignored whatever it holds
		for depth := 1; depth <= 16; depth++ {
			for kind := 0; kind < 3; kind++ {
				v := nUint(1)
				for i := 0; i < depth; i++ {
					switch (kind + i) % 3 {
					case 0:
						v = nArr(v)
					case 1:
						v = nMap([2]*Node{nUint(uint64(i)), v})
					default:
						v = nArr(nTstr("x"), v)
					}
				}
				t := base()
				pos := rng.Intn(len(t.Pairs) + 1)
				t.Pairs = append(t.Pairs[:pos:pos], append([][2]*Node{{nInt(-76000 - int64(depth)), v}}, t.Pairs[pos:]...)...)
				emit(tokCase{class: pn + "unknown-key-nested", n: t})
			}
		}
		// an unknown key holding a long array / a map of many pairs
		for _, n := range []int{24, 33, 129, 1000} {
			arr, mp := nArr(), nMap()
			for i := 0; i < n; i++ {
				arr.Kids = append(arr.Kids, nUint(uint64(i)))
				mp.Pairs = append(mp.Pairs, [2]*Node{nUint(uint64(i)), nUint(1)})
			}
			for _, v := range []*Node{arr, mp} {
				t := base()
				t.Pairs = append(t.Pairs, [2]*Node{nInt(-76100), v})
				emit(tokCase{class: pn + "unknown-key-long", n: t})
			}
		}
		// certification references as text: the valid forms, their edits, digits of other scripts in the same number of bytes
		{
			certKey := int64(-75005)
			if p == 2 {
				certKey = 2398
			}
			nb := append(certNeighbourhood(ean13), certNeighbourhood(ean13p5)...)
			for i, sref := range nb {
				if !thorough && i%9 != 0 && !strings.ContainsAny(sref, "٢१𝟏０١") {
					continue
				}
				t := fullBase()
				setKey(t, certKey, nTstr(sref))
				emit(tokCase{class: pn + "cert-ref-edit", n: t})
			}
		}
		// non-integer, non-text keys
		for _, k := range []*Node{nBstr([]byte{1}), nArr(), nMap(), nSimple(21), nNull(), {Kind: kF64, N: 0x3ff0000000000000}, nTstr("\xff"), nNint(1 << 63), nTag(1, nUint(1))} {
			t := base()
			t.Pairs = append(t.Pairs, [2]*Node{k, nUint(1)})
			shuffle(rng, t)
			emit(tokCase{class: pn + "non-int-key", n: t})
		}
		// duplicate keys (no verdict)
		for _, k := range keys {
			t := fullBase()
			t.Pairs = append(t.Pairs, [2]*Node{nInt(k), anyValue(rng)})
			if rng.Bool() {
				shuffle(rng, t)
			}
			emit(tokCase{class: pn + "duplicate-key", n: t})
		}
		// software components
		swKey := int64(-75006)
		if p == 2 {
			swKey = 2399
		}
		good := func() *Node { return compNode(validComp(rng)) }
		compCases := []func() *Node{
			func() *Node { return nArr() },
			func() *Node { return nArr(nNull()) },
			func() *Node { return nArr(good(), nNull()) },
			func() *Node { return nArr(nUint(1)) },
			func() *Node { return nArr(nArr()) },
			func() *Node { return nArr(nMap()) },
			func() *Node { return nArr(good(), good(), good(), good()) },
			func() *Node { c := good(); delKey(c, 2); return nArr(c) },
			func() *Node { c := good(); delKey(c, 5); return nArr(c) },
			func() *Node { c := good(); setKey(c, 3, nTstr("x")); setKey(c, 7, nUint(1)); return nArr(c) },
			func() *Node {
				c := good()
				c.Pairs = append(c.Pairs, [2]*Node{nUint(2), nBstr(fill(32, 9))})
				return nArr(c)
			},
			func() *Node {
				c := good()
				c.Pairs = append(c.Pairs, [2]*Node{nTstr("2"), nBstr(fill(3, 9))})
				return nArr(c)
			},
			func() *Node {
				c := good()
				c.Pairs = append([][2]*Node{{nTstr("5"), nUint(9)}}, c.Pairs...)
				return nArr(c)
			},
			func() *Node { c := good(); c.Pairs = append(c.Pairs, [2]*Node{nBstr(nil), nUint(9)}); return nArr(c) },
			func() *Node { c := good(); shuffle(rng, c); return nArr(good(), c) },
		}
		for _, f := range compCases {
			t := fullBase()
			delKey(t, -75007)
			setKey(t, swKey, f())
			emit(tokCase{class: pn + "components", n: t})
		}
		for _, ck := range compKeyList {
			for _, w := range wrongPool {
				c := compNode(CompDesc{MT: bp([]byte("BL")), MV: bp(fill(32, 1)), Ver: bp([]byte("1")), SID: bp(fill(32, 2)), MD: bp([]byte("d"))})
				setKey(c, ck, w.clone())
				t := fullBase()
				delKey(t, -75007)
				setKey(t, swKey, nArr(good(), c))
				emit(tokCase{class: pn + "component-field/" + kindName(w), n: t})
			}
		}
		// a conformant token padded with unknown keys up to 16, 24, 40 entries: still conformant
		for _, extra := range []int{6, 9, 17, 33} {
			t := fullBase()
			for k := 0; k < extra; k++ {
				t.Pairs = append(t.Pairs, [2]*Node{nUint(uint64(70000 + k)), nUint(uint64(k))})
			}
			shuffle(rng, t)
			emit(tokCase{class: pn + "many-unknown-keys", n: t})
		}
		// profile claim variants
		if p == 1 {
			for _, v := range []*Node{nTstr(psa.Profile1Name), nTstr(psa.Profile2Name), nTstr(""), nNull(), nUint(1)} {
				t := fullBase()
				setKey(t, -75000, v)
				emit(tokCase{class: pn + "profile-claim", n: t})
			}
			for _, v := range []*Node{nTstr(psa.Profile1Name), nNull(), nUndef(), nTstr(""), nTstr("http://example.com/unregistered"), nUint(1), nBstr([]byte{0x2b, 6, 1})} {
				t := fullBase()
				t.Pairs = append(t.Pairs, [2]*Node{nUint(265), v})
				shuffle(rng, t)
				emit(tokCase{class: pn + "key-265-on-p1", n: t})
			}
		} else {
			t := fullBase()
			setKey(t, -75000, nTstr(psa.Profile1Name))
			emit(tokCase{class: pn + "both-profile-keys", n: t})
			t = fullBase()
			setKey(t, -75000, nTstr(psa.Profile2Name))
			emit(tokCase{class: pn + "both-profile-keys", n: t})
			// names that differ from the registered one only by what a URL parser would normalise away, or by
			// case / white space: each names a profile nobody registered
			for _, v := range []string{"HTTP://arm.com/psa/2.0.0", "Http://arm.com/psa/2.0.0", "http://arm.com/psa/2.0.0#", "http://arm.com/psa/2.0.0?",
				"http://ARM.com/psa/2.0.0", "http://arm.com/psa/2.0.0/", "http://arm.com:80/psa/2.0.0", "http://arm.com/psa/2.0.0 ", " http://arm.com/psa/2.0.0",
				"http://arm.com/psa/2.0.00", "http://arm.com/psa/2.0", "http://arm.com/./psa/2.0.0", "http://arm.com/psa/%32.0.0", "psa_iot_profile_1", "PSA_IOT_PROFILE_1 "} {
				t = fullBase()
				setKey(t, 265, nTstr(v))
				emit(tokCase{class: pn + "profile-name-variant", n: t})
			}
		}
		// exempt encodings
		if p == 2 {
			t := fullBase()
			setKey(t, 10, nArr(nBstr(fill(32, 1))))
			emit(tokCase{class: pn + "exempt/one-element-nonce-array", n: t})
		} else {
			for _, v := range []uint64{0, 2, 255, 1 << 40} {
				t := fullBase()
				delKey(t, -75006)
				setKey(t, -75007, nUint(v))
				emit(tokCase{class: pn + "exempt/flag-not-1", n: t})
			}
		}
		{
			t := fullBase()
			emit(tokCase{class: pn + "exempt/tagged-token", n: nTag(55799, t)})
			emit(tokCase{class: pn + "exempt/tagged-token", n: nTag(61, t)})
		}
		// random products of the above value-level mutations
		for i := 0; i < nRandom; i++ {
			t := base()
			if rng.Chance(50) {
				t = fullBase()
			}
			nm := rng.Intn(4)
			for j := 0; j < nm; j++ {
				k := Pick(rng, keys)
				switch rng.Intn(5) {
				case 0:
					delKey(t, k)
				case 1, 2:
					setKey(t, k, anyValue(rng))
				case 3:
					t.Pairs = append(t.Pairs, [2]*Node{unknownKeyPool(rng), anyValue(rng)})
				case 4:
					// a value of the right type but random size
					setKey(t, k, Pick(rng, []*Node{nBstr(fill(rng.Intn(70), 3)), nTstr(Pick(rng, textPool)), nUint(uint64(rng.Intn(70000))), nInt(int64(int32(rng.U64())))}))
				}
			}
			if rng.Chance(40) {
				shuffle(rng, t)
			}
			emit(tokCase{class: fmt.Sprintf(pn+"product%d", nm), n: t})
		}
	}
	// non-map top-level items
	for _, w := range wrongPool {
		emit(tokCase{class: "top-level/" + kindName(w), n: w.clone()})
	}
}

func byteKeys(p int) []int64 {
	if p == 1 {
		return []int64{-75003, -75004, -75008, -75009}
	}
	return []int64{2396, 2397, 10, 256}
}

func kindName(n *Node) string {
	switch n.Kind {
	case kUint:
		return "uint"
	case kNint:
		return "nint"
	case kBstr:
		return "bstr"
	case kTstr:
		return "tstr"
	case kArr:
		return "array"
	case kMap:
		return "map"
	case kTag:
		return "tag"
	case kSimple:
		switch n.N {
		case 20, 21:
			return "bool"
		case 22:
			return "null"
		case 23:
			return "undefined"
		}
		return "simple"
	}
	return "float"
}

// leniency: why the library took a non-conformant token (known-finding signature parts)
func leniencies(n *Node, decl int) []string {
	set := map[string]bool{}
	if n.Kind != kMap {
		if n.Kind == kSimple && (n.N == 22 || n.N == 23) {
			return []string{"top-level-null"}
		}
		return nil
	}
	keys := p1KeyList
	if decl == 2 {
		keys = p2KeyList
	}
	isKey := func(k int64) bool {
		for _, x := range keys {
			if x == k {
				return true
			}
		}
		return false
	}
	val := func(v *Node, bytesTyped, intTyped bool) {
		switch {
		case v.Kind == kSimple && (v.N == 22 || v.N == 23):
			set["null-as-absent"] = true
		case v.Kind == kSimple && v.N != 20 && v.N != 21 && intTyped:
			set["simple-as-int"] = true
		case v.Kind == kArr && bytesTyped:
			set["array-as-bstr"] = true
		}
	}
	for _, p := range n.Pairs {
		if p[0].Kind == kTstr {
			for _, k := range append(append([]int64{}, keys...), 265) {
				if string(p[0].B) == fmt.Sprint(k) {
					set["text-key-alias"] = true
				}
			}
			continue
		}
		if p[0].Kind == kUint && p[0].N >= 1<<63 {
			if isKey(int64(p[0].N)) {
				set["uint-key-wraps"] = true
			}
			continue
		}
		k, ok := keyInt(p[0])
		if !ok {
			continue
		}
		if k == 265 && decl != 2 {
			val(p[1], false, false)
			if p[1].Kind == kTstr && len(p[1].B) == 0 {
				set["empty-profile-name"] = true
			}
			continue
		}
		if !isKey(k) {
			continue
		}
		intK := k == -75001 || k == -75002 || k == -75007 || k == 2394 || k == 2395
		byteK := k == -75003 || k == -75004 || k == -75008 || k == -75009 || k == 2396 || k == 2397 || k == 10 || k == 256
		val(p[1], byteK, intK)
		if (k == -75006 || k == 2399) && p[1].Kind == kArr {
			for _, e := range p[1].Kids {
				if e.Kind != kMap {
					continue
				}
				for _, cp := range e.Pairs {
					if cp[0].Kind == kTstr {
						for _, ck := range compKeyList {
							if string(cp[0].B) == fmt.Sprint(ck) {
								set["text-key-alias"] = true
							}
						}
						continue
					}
					ck, ok := keyInt(cp[0])
					if !ok {
						continue
					}
					val(cp[1], ck == 2 || ck == 5, false)
				}
			}
		}
		if k == 10 && p[1].Kind == kArr {
			for _, e := range p[1].Kids {
				val(e, true, false)
			}
		}
	}
	var out []string
	for k := range set {
		out = append(out, k)
	}
	sort.Strings(out)
	return out
}

func runC04(r *Run, rng *Rng, thorough bool) {
	nVerdict, nNoVerdict, nConf := 0, 0, 0
	genTokens(rng, thorough, func(tc tokCase) {
		buf := append(tc.n.Bytes(), tc.extra...)
		res := decv(buf)
		r.Case(tc.class, strings.HasSuffix(tc.class, "/valid"), "decv "+hx(buf), res.line)
		if res.panicked {
			return // C05's business; recorded there
		}
		w := wireSpec(tc.n)
		if len(tc.extra) > 0 {
			w = wireResult{Verdict: true, Conf: false, Why: "trailing bytes"}
		}
		if !w.Verdict {
			nNoVerdict++
			return
		}
		nVerdict++
		if w.Conf {
			nConf++
		}
		lsig := func() string {
			l := leniencies(tc.n, w.Declared)
			for i := range l {
				l[i] = "C04:" + l[i]
			}
			return strings.Join(l, "+")
		}
		if res.accepted != w.Conf {
			if res.accepted {
				r.FailSig("accept-iff-conformant", fmt.Sprintf("accepted although not conformant (%s): %s", w.Why, trunc(tc.n.String(), 300)), lsig())
			} else {
				r.FailSig("accept-iff-conformant", fmt.Sprintf("rejected although conformant: %s", trunc(tc.n.String(), 300)), lsig())
			}
			return
		}
		if !res.accepted {
			return
		}
		// the per-type decoder takes the profile claim from the token, not from the object it decodes into: the same
		// conformant profile-2 token without key 265, decoded into a fresh profile-2 claims-set (whose factory has
		// set the profile), lacks its mandatory profile claim
		if w.Declared == 2 && lookupInt(tc.n, 265) != nil && len(tc.extra) == 0 {
			t2 := tc.n.clone()
			delKey(t2, 265)
			c2, _ := psa.NewClaims(psa.Profile2Name)
			var uerr, verr error
			if pan, _ := safely(func() { uerr = c2.(*psa.P2Claims).UnmarshalCBOR(t2.Bytes()); verr = c2.Validate() }); !pan && uerr == nil && verr == nil {
				r.Fail("accept-iff-conformant", "a profile-2 token without its profile claim validates after P2Claims.UnmarshalCBOR into a fresh claims-set: "+trunc(t2.String(), 200))
			}
		}
		// every getter returns exactly the value carried on the wire
		for g, gr := range res.obs.G {
			st := specGetter(w.Desc, g)
			if st == stMissingOptional {
				if gr.Err == nil {
					r.FailSig("getter-eq-wire", fmt.Sprintf("%s returns %s, the claim is not on the wire", gr.Name, gr.Val), lsig())
				}
				continue
			}
			if gr.Err != nil || gr.Panic {
				r.FailSig("getter-eq-wire", fmt.Sprintf("%s fails on an accepted token: %v", gr.Name, gr), lsig())
			} else if gr.Val != wantVal(w.Desc, g) {
				r.FailSig("getter-eq-wire", fmt.Sprintf("%s returns %s, wire carries %s", gr.Name, gr.Val, wantVal(w.Desc, g)), lsig())
			}
		}
	})
	r.extra["with_verdict"] = nVerdict
	r.extra["no_verdict"] = nNoVerdict
	r.extra["conformant"] = nConf
}
