package main

// Two different struct types with the same printed name (function-local types called T): whatever the codec remembers
// about a type must be remembered per type, not per name (C15: "matches the plain codec", round trip).

import (
	"bytes"
	"encoding/json"
	"fmt"
	"reflect"

	"github.com/veraison/psatoken/encoding"
)

func localTypeA() any {
	type T struct {
		A *int64  `cbor:"1,keyasint" json:"a"`
		B *string `cbor:"2,keyasint,omitempty" json:"b,omitempty"`
	}
	v := int64(5)
	return &T{A: &v}
}

func localTypeB() any {
	type T struct {
		X *string `cbor:"7,keyasint" json:"x"`
		Y *int64  `cbor:"8,keyasint,omitempty" json:"y,omitempty"`
		Z *int64  `cbor:"1,keyasint,omitempty" json:"b,omitempty"`
	}
	s, z := "s", int64(9)
	return &T{X: &s, Z: &z}
}

func localTypeC() any {
	type T struct {
		A *int64  `cbor:"1,keyasint,omitempty" json:"a,omitempty"`
		B *string `cbor:"2,keyasint" json:"b"`
	}
	s := "only b"
	return &T{B: &s}
}

func sameNameTypes(r *Run) {
	vals := []any{localTypeA(), localTypeB(), localTypeC(), localTypeB(), localTypeA()}
	for i, v := range vals {
		r.ImplOnly("same-name-types", false, fmt.Sprintf("same-name-types %d %T", i, v))
		var got, plain []byte
		var e1, e2 error
		if p, what := safely(func() { got, e1 = encoding.SerializeStructToCBOR(extEM, v) }); p {
			r.Fail("no-panic", fmt.Sprintf("SerializeStructToCBOR(%T) panics: %v", v, what))
			continue
		}
		plain, e2 = extEM.Marshal(v)
		if e1 != nil || e2 != nil || genericCBOR(got) != genericCBOR(plain) {
			r.Fail("plain-equivalence", fmt.Sprintf("value %d of type %T (one of several types of that name): embedding-aware CBOR %x (%v) vs plain marshaller %x (%v)", i, v, got, e1, plain, e2))
		}
		fresh := reflect.New(reflect.TypeOf(v).Elem()).Interface()
		if e := encoding.PopulateStructFromCBOR(extDM, got, fresh); e != nil || !reflect.DeepEqual(fresh, v) {
			r.Fail("roundtrip", fmt.Sprintf("value %d of type %T does not populate back from %x: %v", i, v, got, e))
		}
		var gj, pj []byte
		if p, what := safely(func() { gj, e1 = encoding.SerializeStructToJSON(v) }); p {
			r.Fail("no-panic", fmt.Sprintf("SerializeStructToJSON(%T) panics: %v", v, what))
			continue
		}
		pj, e2 = json.Marshal(v)
		if e1 != nil || e2 != nil || !bytes.Equal(compactJSON(gj), compactJSON(pj)) {
			r.Fail("plain-equivalence", fmt.Sprintf("value %d of type %T: embedding-aware JSON %s (%v) vs plain marshaller %s (%v)", i, v, gj, e1, pj, e2))
		}
		freshJ := reflect.New(reflect.TypeOf(v).Elem()).Interface()
		if e := encoding.PopulateStructFromJSON(gj, freshJ); e != nil || !reflect.DeepEqual(freshJ, v) {
			r.Fail("roundtrip", fmt.Sprintf("value %d of type %T does not populate back from %s: %v", i, v, gj, e))
		}
	}
}

func compactJSON(b []byte) []byte {
	var out bytes.Buffer
	if err := json.Compact(&out, b); err != nil {
		return b
	}
	return out.Bytes()
}

// genericCBOR: the item decoded into a generic map by the plain decoder, printed with sorted keys.
func genericCBOR(b []byte) string {
	var m map[int64]any
	if err := extDM.Unmarshal(b, &m); err != nil {
		return "unreadable:" + hx(b)
	}
	return fmt.Sprint(m) // fmt prints maps with sorted keys
}
