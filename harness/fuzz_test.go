package main

import (
	"testing"
)

// FuzzDecode: coverage-guided fuzzing of every decoding entry point (C05, thorough tier), seeded from the
// structure-aware corpus of the harness. Any panic — in the decode or in anything the property allows to be
// done with its result — fails the target; the fuzzer minimises and stores the input.
func FuzzDecode(f *testing.F) {
	rng := NewRng(1)
	ks := keys()
	for p := 1; p <= 2; p++ {
		d := c19Claims(rng, true)
		for d.P != p {
			d = c19Claims(rng, true)
		}
		tok := tokenOf(d).Bytes()
		js := []byte(jsonOf(d).Text())
		env, _, _ := signedToken(d, ks[0], ks[0].algs[0])
		for _, e := range []uint8{1, 3, 4, 7, 9, 11} {
			f.Add(e, tok)
		}
		for _, e := range []uint8{2, 5, 6, 8, 10, 12} {
			f.Add(e, js)
		}
		f.Add(uint8(0), env)
	}
	for _, b := range [][]byte{{0xa0}, {0xbf, 0xff}, {0xd2, 0xa0}, {0xba, 0, 0, 0, 1, 1, 2}, {0xa1, 0x01, 0xf6}, []byte(`{"a":1,"a":2}`), []byte(`null`), []byte(`{"z":1,"i2":"x","j1":"AA=="}`)} {
		for e := uint8(0); e < 13; e++ {
			f.Add(e, b)
		}
	}
	f.Fuzz(func(t *testing.T, e uint8, data []byte) {
		if len(data) > 1<<16 {
			return
		}
		entry := int(e) % len(entryNames)
		_, pan, what := callEntry(entry, data)
		if pan {
			t.Fatalf("entry %s panics on %x: %v", entryNames[entry], data, what)
		}
	})
}
