package main

// encoding.GetProfileJSONTag (what registration uses to find the profile member of a claims type) against the Lean
// model of the walk (Psa/Model/ProfileTag.lean, op `jtag`).  The value is described to the model from what reflect
// reports about it (this file's own walk: every field, anonymous or not; values followed through interfaces and
// pointers), so the model decides which fields count as embedded.  Oracles on the implementation: no panic; a type
// with no profile field anywhere is refused with an error; the tag found is the json name of a field that is a
// profile field (CBOR key 265 / -75000, or named Profile without a cbor tag).

import (
	"encoding/hex"
	"fmt"
	"reflect"
	"strings"

	"github.com/veraison/psatoken/encoding"
)

func ptx(s string) string { return "x" + hex.EncodeToString([]byte(s)) }

func describeValue(v reflect.Value, depth int) []string {
	if !v.IsValid() {
		return []string{"Z"}
	}
	switch v.Kind() {
	case reflect.Pointer:
		if v.IsNil() {
			return []string{"N"}
		}
		return append([]string{"P"}, describeValue(v.Elem(), depth)...)
	case reflect.Struct:
		t := v.Type()
		out := []string{"S", fmt.Sprint(t.NumField())}
		for i := 0; i < t.NumField(); i++ {
			f := t.Field(i)
			an := "-"
			if f.Anonymous {
				an = "a"
			}
			kd := "o"
			switch f.Type.Kind() {
			case reflect.Struct:
				kd = "s"
			case reflect.Interface:
				kd = "i"
			case reflect.Pointer:
				kd = "p"
			}
			ck, jn := "_", "_"
			if tag, ok := f.Tag.Lookup("cbor"); ok {
				ck = ptx(strings.Split(tag, ",")[0])
			}
			if tag, ok := f.Tag.Lookup("json"); ok {
				jn = ptx(strings.Split(tag, ",")[0])
			}
			out = append(out, ptx(f.Name), an, ptx(f.Type.Name()), kd, ck, jn)
			if f.Anonymous && depth < 6 {
				fv := v.Field(i)
				if f.Type.Kind() == reflect.Interface {
					fv = fv.Elem()
				}
				out = append(out, describeValue(fv, depth+1)...)
			} else {
				out = append(out, "O")
			}
		}
		return out
	}
	return []string{"O"}
}

// shapes for the walk
type ptProfByKey struct {
	A *int    `cbor:"1,keyasint" json:"a"`
	P *string `cbor:"265,keyasint" json:"eat-profile,omitempty"`
}
type ptProfByPsaKey struct {
	P *string `cbor:"-75000,keyasint,omitempty" json:"psa-profile"`
	Z *int    `cbor:"9,keyasint" json:"z"`
}
type ptProfByName struct {
	A       *int    `cbor:"1,keyasint" json:"a"`
	Profile *string `json:"my-profile"`
	B       *int    `cbor:"2,keyasint" json:"b"`
}
type ptNameThenKey struct {
	Profile *string `json:"by-name"`
	K       *string `cbor:"265,keyasint" json:"by-key"`
}
type ptNameWithCborTag struct {
	Profile *string `cbor:"7,keyasint" json:"tagged-profile"`
}
type ptNoJSON struct {
	P *string `cbor:"265,keyasint"`
}
type ptNone struct {
	A *int `cbor:"1,keyasint" json:"a"`
}
type ptMarker interface{ ptM() }

func (ptProfByKey) ptM()  {}
func (ptNone) ptM()       {}
func (ptProfByName) ptM() {}
func (ptNoJSON) ptM()     {}
func (ptEmbedsNone) ptM() {}
func (ptEmbedsKey) ptM()  {}

type ptEmbedsKey struct {
	X *int `cbor:"3,keyasint" json:"x"`
	ptProfByKey
}
type ptEmbedsNone struct {
	X *int `cbor:"3,keyasint" json:"x"`
	ptNone
}
type ptEmbedsTwo struct {
	ptNone
	ptProfByName
	ptProfByKey
}
type ptEmbedsNoJSONFirst struct {
	ptNoJSON
	ptProfByKey
}
type ptOwnWins struct {
	ptProfByKey
	Mine *string `cbor:"-75000,keyasint" json:"mine"`
}
type ptIface struct {
	Y *int `cbor:"4,keyasint" json:"y"`
	ptMarker
}
type ptPtrEmbed struct {
	*ptProfByKey
}
type ptDeep struct {
	ptIface
}

func ptagValues() map[string]interface{} {
	return map[string]interface{}{
		"by-key": &ptProfByKey{}, "by-key-value": ptProfByKey{}, "by-psa-key": &ptProfByPsaKey{}, "by-name": &ptProfByName{},
		"name-then-key": &ptNameThenKey{}, "name-with-cbor-tag": &ptNameWithCborTag{}, "no-json-tag": &ptNoJSON{}, "none": &ptNone{},
		"embeds-key": &ptEmbedsKey{}, "embeds-none": &ptEmbedsNone{}, "embeds-two": &ptEmbedsTwo{}, "embeds-nojson-first": &ptEmbedsNoJSONFirst{},
		"own-wins": &ptOwnWins{}, "pointer-embed": &ptPtrEmbed{ptProfByKey: &ptProfByKey{}}, "pointer-embed-nil": &ptPtrEmbed{},
		"iface-nil": &ptIface{}, "iface-value-key": &ptIface{ptMarker: ptProfByKey{}}, "iface-value-none": &ptIface{ptMarker: ptNone{}},
		"iface-pointer-key": &ptIface{ptMarker: &ptProfByKey{}}, "iface-pointer-none": &ptIface{ptMarker: &ptNone{}},
		"iface-pointer-name": &ptIface{ptMarker: &ptProfByName{}}, "iface-pointer-nojson": &ptIface{ptMarker: &ptNoJSON{}},
		"iface-typed-nil-pointer": &ptIface{ptMarker: (*ptProfByKey)(nil)},
		"iface-nested-value":      &ptIface{ptMarker: ptEmbedsKey{}}, "iface-nested-pointer": &ptIface{ptMarker: &ptEmbedsNone{}},
		"nil-pointer-top": (*ptProfByKey)(nil), "not-a-struct": 5, "deep-iface-pointer": &ptDeep{ptIface{ptMarker: &ptEmbedsKey{}}}, "deep-iface-nil": &ptDeep{},
	}
}

// profile field test of the oracle, independent of the library's loop
func ptIsProfileField(f reflect.StructField) bool {
	if tag, ok := f.Tag.Lookup("cbor"); ok {
		k := strings.Split(tag, ",")[0]
		return k == "265" || k == "-75000"
	}
	return f.Name == "Profile"
}

// anyProfileField: does any field reachable through anonymous struct / interface / pointer fields qualify; names: json names of those
func ptProfileNames(v reflect.Value, depth int, names map[string]bool) {
	for v.IsValid() && (v.Kind() == reflect.Pointer || v.Kind() == reflect.Interface) {
		if v.IsNil() {
			return
		}
		v = v.Elem()
	}
	if !v.IsValid() || v.Kind() != reflect.Struct || depth > 6 {
		return
	}
	t := v.Type()
	for i := 0; i < t.NumField(); i++ {
		f := t.Field(i)
		if f.Anonymous && (f.Type.Kind() == reflect.Struct || f.Type.Kind() == reflect.Interface) {
			ptProfileNames(v.Field(i), depth+1, names)
			continue
		}
		if ptIsProfileField(f) {
			if tag, ok := f.Tag.Lookup("json"); ok {
				names[strings.Split(tag, ",")[0]] = true
			} else {
				names["\x00no-json"] = true
			}
		}
	}
}

func ptagCases(r *Run) {
	vals := ptagValues()
	var keys []string
	for k := range vals {
		keys = append(keys, k)
	}
	sortStrings(keys)
	for _, k := range keys {
		v := vals[k]
		op := "jtag " + strings.Join(describeValue(reflect.ValueOf(v), 0), ",")
		r.About(op)
		var tag string
		var err error
		pan, what := safely(func() { tag, err = encoding.GetProfileJSONTag(v) })
		res := ""
		names := map[string]bool{}
		ptProfileNames(reflect.ValueOf(v), 0, names)
		switch {
		case pan:
			res = "panic"
		case err == nil:
			res = "ok tag=" + ptx(tag)
		case strings.Contains(err.Error(), "could not identify profile field"):
			res = "err no-profile"
		default:
			res = "err no-json-tag"
		}
		// the model also reports whether the description has a profile field at all; compared through the oracle below
		r.Case("profile-tag/"+k, false, op, res+fmt.Sprintf(" has=%v", len(names) > 0))
		if pan {
			r.Fail("failed-register-unchanged", fmt.Sprintf("GetProfileJSONTag(%s) panics: %v (registration of such a claims type panics instead of succeeding or failing)", k, what))
			continue
		}
		if len(names) == 0 && err == nil {
			r.Fail("failed-register-unchanged", fmt.Sprintf("GetProfileJSONTag(%s) = %q for a type with no identifiable profile field", k, tag))
		}
		if err == nil && !names[tag] {
			r.Fail("failed-register-unchanged", fmt.Sprintf("GetProfileJSONTag(%s) = %q, which is not the json name of a profile field (%v)", k, tag, names))
		}
	}
}
