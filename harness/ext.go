package main

// Extension profiles for the harness: a claims type embedding one of the two
// base claims types plus one optional integer claim, serialised through the
// embedding-aware codec of psatoken/encoding (as example_extensions_test.go does).

import (
	"fmt"

	cbor "github.com/fxamacker/cbor/v2"
	"github.com/veraison/eat"
	psa "github.com/veraison/psatoken"
	"github.com/veraison/psatoken/encoding"
)

var (
	extEM cbor.EncMode
	extDM cbor.DecMode
)

func init() {
	var err error
	extEM, err = cbor.EncOptions{IndefLength: cbor.IndefLengthForbidden, TimeTag: cbor.EncTagRequired}.EncMode()
	if err != nil {
		panic(err)
	}
	extDM, err = cbor.DecOptions{IndefLength: cbor.IndefLengthForbidden}.DecMode()
	if err != nil {
		panic(err)
	}
}

type ExtP2Claims struct {
	psa.P2Claims
	Extra *int64 `cbor:"-75100,keyasint,omitempty" json:"ext-extra,omitempty"`
}

func (o *ExtP2Claims) Validate() error             { return psa.ValidateClaims(o) }
func (o ExtP2Claims) MarshalCBOR() ([]byte, error) { return encoding.SerializeStructToCBOR(extEM, &o) }
func (o *ExtP2Claims) UnmarshalCBOR(data []byte) error {
	return encoding.PopulateStructFromCBOR(extDM, data, o)
}
func (o ExtP2Claims) MarshalJSON() ([]byte, error) { return encoding.SerializeStructToJSON(&o) }
func (o *ExtP2Claims) UnmarshalJSON(data []byte) error {
	return encoding.PopulateStructFromJSON(data, o)
}

type ExtP1Claims struct {
	psa.P1Claims
	Extra *int64 `cbor:"-75100,keyasint,omitempty" json:"ext-extra,omitempty"`
}

func (o *ExtP1Claims) Validate() error             { return psa.ValidateClaims(o) }
func (o ExtP1Claims) MarshalCBOR() ([]byte, error) { return encoding.SerializeStructToCBOR(extEM, &o) }
func (o *ExtP1Claims) UnmarshalCBOR(data []byte) error {
	return encoding.PopulateStructFromCBOR(extDM, data, o)
}
func (o ExtP1Claims) MarshalJSON() ([]byte, error) { return encoding.SerializeStructToJSON(&o) }
func (o *ExtP1Claims) UnmarshalJSON(data []byte) error {
	return encoding.PopulateStructFromJSON(data, o)
}

// ExtProfile: a registrable profile. Base 2 names must be absolute URLs.
type ExtProfile struct {
	Name string
	Base int
}

func (p ExtProfile) GetName() string { return p.Name }
func (p ExtProfile) GetClaims() psa.IClaims {
	if p.Base == 1 {
		n := p.Name
		return &ExtP1Claims{P1Claims: psa.P1Claims{Profile: &n, SwComponents: psa.VerifNewSwComponents(nil), CanonicalProfile: p.Name}}
	}
	ep := eat.Profile{}
	if err := ep.Set(p.Name); err != nil {
		panic(fmt.Sprintf("ext profile name %q: %v", p.Name, err))
	}
	return &ExtP2Claims{P2Claims: psa.P2Claims{Profile: &ep, SwComponents: psa.VerifNewSwComponents(nil), CanonicalProfile: p.Name}}
}

// NoTagProfile: a profile whose claims type has no identifiable profile field.
type noTagClaims struct {
	psa.IClaims `cbor:"-" json:"-"`
	X           int `cbor:"1,keyasint" json:"x"`
}
type NoTagProfile struct{ Name string }

func (p NoTagProfile) GetName() string        { return p.Name }
func (p NoTagProfile) GetClaims() psa.IClaims { return &noTagClaims{} }

func extName(i int) string { return fmt.Sprintf("http://example.com/psa/ext/%d", i) }

// ---- further extension types used to take the checks through the extension-profile paths ----

// StrictExtClaims: profile-2 based, with a rule of its own: Extra must be present and not negative.
type StrictExtClaims struct {
	psa.P2Claims
	Extra *int64 `cbor:"-75100,keyasint,omitempty" json:"ext-extra,omitempty"`
}

func (o *StrictExtClaims) Validate() error {
	if err := psa.ValidateClaims(o); err != nil {
		return err
	}
	if o.Extra == nil || *o.Extra < 0 {
		return fmt.Errorf("%w: ext-extra must be present and not negative", psa.ErrWrongSyntax)
	}
	return nil
}
func (o StrictExtClaims) MarshalCBOR() ([]byte, error) {
	return encoding.SerializeStructToCBOR(extEM, &o)
}
func (o *StrictExtClaims) UnmarshalCBOR(data []byte) error {
	return encoding.PopulateStructFromCBOR(extDM, data, o)
}
func (o StrictExtClaims) MarshalJSON() ([]byte, error) { return encoding.SerializeStructToJSON(&o) }
func (o *StrictExtClaims) UnmarshalJSON(data []byte) error {
	return encoding.PopulateStructFromJSON(data, o)
}

type StrictExtProfile struct{ Name string }

func (p StrictExtProfile) GetName() string { return p.Name }
func (p StrictExtProfile) GetClaims() psa.IClaims {
	ep := eat.Profile{}
	if err := ep.Set(p.Name); err != nil {
		panic(err)
	}
	return &StrictExtClaims{P2Claims: psa.P2Claims{Profile: &ep, SwComponents: psa.VerifNewSwComponents(nil), CanonicalProfile: p.Name}}
}

// NoVsiExtClaims: a profile that does not have the VSI claim and says so with the *base* sentinels
// (ErrNotInProfile for the VSI, ErrMissingOptional for an absent certification reference).
type NoVsiExtClaims struct {
	psa.P2Claims
}

func (o *NoVsiExtClaims) GetVSI() (string, error) { return "", psa.ErrNotInProfile }
func (o *NoVsiExtClaims) GetCertificationReference() (string, error) {
	if o.CertificationReference == nil {
		return "", fmt.Errorf("no certification reference here: %w", psa.ErrMissingOptional)
	}
	return o.P2Claims.GetCertificationReference()
}
func (o *NoVsiExtClaims) Validate() error { return psa.ValidateClaims(o) }

// TagOrderExtClaims: profile-2 based, optional claims whose tags put omitempty first / leave keyasint out —
// the encoding package reads the key with Atoi and must honour omitempty wherever it stands.
type TagOrderExtClaims struct {
	psa.P2Claims
	A *int64  `cbor:"-75100,omitempty" json:"ext-a,omitempty"`
	B *string `cbor:"-75101,omitempty,keyasint" json:"ext-b,omitempty"`
	C *int64  `cbor:"-75102,keyasint,omitempty" json:"ext-c,omitempty"`
}

func (o *TagOrderExtClaims) Validate() error { return psa.ValidateClaims(o) }
func (o TagOrderExtClaims) MarshalCBOR() ([]byte, error) {
	return encoding.SerializeStructToCBOR(extEM, &o)
}
func (o *TagOrderExtClaims) UnmarshalCBOR(data []byte) error {
	return encoding.PopulateStructFromCBOR(extDM, data, o)
}
func (o TagOrderExtClaims) MarshalJSON() ([]byte, error) { return encoding.SerializeStructToJSON(&o) }
func (o *TagOrderExtClaims) UnmarshalJSON(data []byte) error {
	return encoding.PopulateStructFromJSON(data, o)
}

// ClashExtClaims: re-declares a key of the base profile (2400, the VSI).
type ClashExtClaims struct {
	psa.P2Claims
	MyVSI *string `cbor:"2400,keyasint,omitempty" json:"my-vsi,omitempty"`
}

func (o *ClashExtClaims) Validate() error { return psa.ValidateClaims(o) }
func (o ClashExtClaims) MarshalCBOR() ([]byte, error) {
	return encoding.SerializeStructToCBOR(extEM, &o)
}

// RenamedProfile: a built-in claims type registered under another name, without embedding: GetClaims returns a plain
// *P1Claims / *P2Claims whose CanonicalProfile is the new name. For base 1 the optional profile claim is left unset
// unless WithClaim (as the library's own factory does for the default entry).
type RenamedProfile struct {
	Name      string
	Base      int
	WithClaim bool
}

func (p RenamedProfile) GetName() string { return p.Name }
func (p RenamedProfile) GetClaims() psa.IClaims {
	if p.Base == 1 {
		c := &psa.P1Claims{SwComponents: psa.VerifNewSwComponents(nil), CanonicalProfile: p.Name}
		if p.WithClaim {
			n := p.Name
			c.Profile = &n
		}
		return c
	}
	ep := eat.Profile{}
	if err := ep.Set(p.Name); err != nil {
		panic(fmt.Sprintf("renamed profile name %q: %v", p.Name, err))
	}
	return &psa.P2Claims{Profile: &ep, SwComponents: psa.VerifNewSwComponents(nil), CanonicalProfile: p.Name}
}
