#!/bin/sh
# selftest.sh [quick|thorough] — what to run before committing a change to the model, the proofs or the harness:
# full build (as setup_cmd does), every registered check on the unchanged tree, schema validation of the outputs.
set -e
cd "$(dirname "$0")"
TIER=${1:-quick}
./setup.sh >/dev/null 2>&1 || { echo "setup.sh failed (full lake build / go build)"; ./setup.sh 2>&1 | grep -B2 -A12 "^error" | head -60; exit 1; }
fail=0
for p in $(python3 -c "import json;print(' '.join(c['property_id'] for c in json.load(open('MANIFEST.json'))['checks']))"); do
  out=$(./check "$p" --tier "$TIER" 2>&1 | grep "^OK\|^VIOLATION\|^check:" | tail -1)
  echo "$out"
  case "$out" in OK*) ;; *) fail=1;; esac
done
if command -v python3-vt >/dev/null 2>&1; then
python3-vt - <<'PY' || fail=1
import json, jsonschema, glob
jsonschema.validate(json.load(open('MANIFEST.json')), json.load(open('/root/.vp/MANIFEST.schema.json')))
s = json.load(open('/root/.vp/EVIDENCE.schema.json'))
for f in sorted(glob.glob('evidence/*.json')):
    jsonschema.validate(json.load(open(f)), s)
print("schemas ok")
PY
fi
exit $fail
