#!/usr/bin/env python3
"""Regenerates MANIFEST.json from props.json (single source of per-property metadata)."""
import json, os
V = os.path.dirname(os.path.abspath(__file__))
props = json.load(open(os.path.join(V, "props.json")))
all_ids = [json.loads(l)["id"] for l in open(os.path.join(V, "properties.jsonl"))]
na = json.load(open(os.path.join(V, "not_applicable.json"))) if os.path.exists(os.path.join(V, "not_applicable.json")) else {}
checks = []
for pid in all_ids:
    if pid not in props or props[pid].get("disabled"):
        continue
    c = props[pid]
    checks.append({
        "property_id": pid,
        "quick_cmd": "./check %s --tier quick" % pid,
        "thorough_cmd": "./check %s --tier thorough" % pid,
        "evidence_file": "/verif/evidence/%s.json" % pid,
        "replay_cmd_template": "./check %s --replay {path}" % pid,
        "engine": "lean-proof+correspondence",
        "level_claimed": {"category": c.get("level", "proof"), "text": c.get("level_text", c.get("explanation", "")), "design_ref": c.get("design_ref", "DESIGN.md §4 " + pid)},
        "level_note": c.get("level_note", "; ".join(c.get("assumptions", []))),
        "technique": c.get("technique", "Lean 4 theorems about a model of the code; model tied to /repo by regenerated translation/facts and by differential correspondence"),
    })
m = {
    "version": 1,
    "setup_cmd": "./setup.sh",
    "hooks": {"guard": "verif", "enable": "go build -tags verif (harness module with replace => /repo)",
              "baseline_off_cmd": "cd /repo && go test -vet=off -count=1 ./...",
              "source_commits": json.load(open(os.path.join(V, "hooks.json")))["source_commits"] if os.path.exists(os.path.join(V, "hooks.json")) else [],
              "add_only": True},
    "engines": [{"name": "lean-proof+correspondence", "path": "/verif/check",
                 "serves_properties": [c["property_id"] for c in checks],
                 "kind_free_text": "Lean 4 model + theorems (lake project /verif/lean), Go->Lean translator and fact extractor (/verif/extract), Go differential harness (/verif/harness) against the compiled Lean driver"}],
    "checks": checks,
    "not_applicable": [{"property_id": pid, "reason": na.get(pid, "check not built yet (work in progress); see DESIGN.md §4 for the plan")} for pid in all_ids if pid not in props or props[pid].get("disabled")],
    "notes": "All checks: ./check <id> --tier quick|thorough; VERIF_SEED honoured. See DESIGN.md.",
}
json.dump(m, open(os.path.join(V, "MANIFEST.json"), "w"), indent=1)
print("wrote MANIFEST.json with", len(checks), "checks")
