// T1 for the claim getters: the getters of P1Claims / P2Claims / SwComponent that depend on one field of their
// receiver are translated into Lean functions of that field (`Option` = the Go pointer), in Psa/Generated/Getters.lean.
// They all have one shape — nil test, validations, return of the dereferenced field — and anything outside that shape
// makes the generated file refer to an identifier that does not exist, so the tie breaks instead of being silently wrong.
package main

import (
	"fmt"
	"go/ast"
	"go/token"
	"strings"
)

type getterSpec struct {
	recv, name string // Go receiver type and method
	lean       string // Lean name
	field      string // the receiver field the getter may touch
}

var getterSpecs = []getterSpec{
	{"P1Claims", "GetClientID", "p1GetClientID", "ClientID"},
	{"P1Claims", "GetSecurityLifeCycle", "p1GetSecurityLifeCycle", "SecurityLifeCycle"},
	{"P1Claims", "GetImplID", "p1GetImplID", "ImplID"},
	{"P1Claims", "GetBootSeed", "p1GetBootSeed", "BootSeed"},
	{"P1Claims", "GetCertificationReference", "p1GetCertificationReference", "CertificationReference"},
	{"P1Claims", "GetNonce", "p1GetNonce", "Nonce"},
	{"P1Claims", "GetInstID", "p1GetInstID", "InstID"},
	{"P1Claims", "GetVSI", "p1GetVSI", "VSI"},
	{"P2Claims", "GetClientID", "p2GetClientID", "ClientID"},
	{"P2Claims", "GetSecurityLifeCycle", "p2GetSecurityLifeCycle", "SecurityLifeCycle"},
	{"P2Claims", "GetImplID", "p2GetImplID", "ImplID"},
	{"P2Claims", "GetBootSeed", "p2GetBootSeed", "BootSeed"},
	{"P2Claims", "GetCertificationReference", "p2GetCertificationReference", "CertificationReference"},
	{"P2Claims", "GetInstID", "p2GetInstID", "InstID"},
	{"P2Claims", "GetVSI", "p2GetVSI", "VSI"},
	{"SwComponent", "GetMeasurementValue", "compGetMeasurementValue", "MeasurementValue"},
	{"SwComponent", "GetSignerID", "compGetSignerID", "SignerID"},
}

// validators a getter may call, as functions of the model (each is tied to the regenerated validator in Tie/Funcs)
var getterCallees = map[string]string{
	"ValidateSecurityLifeCycle": "Model.validateSecurityLifeCycle",
	"ValidateImplID":            "Model.validateImplID",
	"ValidateNonce":             "Model.validateNonce",
	"ValidateInstID":            "Model.validateInstID",
	"ValidateVSI":               "Model.validateVSI",
	"ValidatePSAHashType":       "Model.validatePSAHashType",
}

var getterRegexes = map[string]string{
	"CertificationReferenceP1RE": "Model.isEan13",
	"CertificationReferenceP2RE": "Model.isEan13p5",
}

type gtr struct {
	p     *pkgInfo
	spec  getterSpec
	recv  string // receiver variable
	alias string // a local that stands for the field (v := c.F)
	errs  []string
	local map[string]bool
}

func (g *gtr) bad(what string, n ast.Node) string {
	pos := ""
	if n != nil {
		pos = g.p.fset.Position(n.Pos()).String()
	}
	g.errs = append(g.errs, what+" at "+pos)
	return fmt.Sprintf("(unsupported_go_construct %q)", what)
}

// isField: e is <recv>.<Field>
func (g *gtr) isField(e ast.Expr) bool {
	if id, ok := e.(*ast.Ident); ok && g.alias != "" && id.Name == g.alias {
		return true
	}
	s, ok := e.(*ast.SelectorExpr)
	if !ok {
		return false
	}
	id, ok := s.X.(*ast.Ident)
	return ok && id.Name == g.recv && s.Sel.Name == g.spec.field
}

// isDeref: e is *<recv>.<Field>
func (g *gtr) isDeref(e ast.Expr) bool {
	if p, ok := e.(*ast.ParenExpr); ok {
		return g.isDeref(p.X)
	}
	s, ok := e.(*ast.StarExpr)
	return ok && g.isField(s.X)
}

func (g *gtr) intExpr(e ast.Expr) string {
	switch x := e.(type) {
	case *ast.BasicLit:
		if x.Kind == token.INT {
			return x.Value
		}
	case *ast.Ident:
		if g.local[x.Name] {
			return x.Name
		}
		if c, ok := g.p.constants()[x.Name]; ok && !c.isStr {
			return fmt.Sprint(c.n)
		}
	case *ast.CallExpr:
		if id, ok := x.Fun.(*ast.Ident); ok && id.Name == "len" && len(x.Args) == 1 && g.isDeref(x.Args[0]) {
			return "v.length"
		}
	case *ast.ParenExpr:
		return g.intExpr(x.X)
	}
	return g.bad("integer expression", e)
}

func (g *gtr) cond(e ast.Expr) string {
	switch x := e.(type) {
	case *ast.ParenExpr:
		return "(" + g.cond(x.X) + ")"
	case *ast.UnaryExpr:
		if x.Op == token.NOT {
			return "(!" + g.cond(x.X) + ")"
		}
	case *ast.BinaryExpr:
		switch x.Op {
		case token.LAND:
			return "(" + g.cond(x.X) + " && " + g.cond(x.Y) + ")"
		case token.LOR:
			return "(" + g.cond(x.X) + " || " + g.cond(x.Y) + ")"
		case token.EQL, token.NEQ, token.LSS, token.LEQ, token.GTR, token.GEQ:
			op := map[token.Token]string{token.EQL: "==", token.NEQ: "!=", token.LSS: "<", token.LEQ: "≤", token.GTR: ">", token.GEQ: "≥"}[x.Op]
			if x.Op == token.EQL || x.Op == token.NEQ {
				return "(" + g.intExpr(x.X) + " " + op + " " + g.intExpr(x.Y) + ")"
			}
			return "(decide (" + g.intExpr(x.X) + " " + op + " " + g.intExpr(x.Y) + "))"
		}
	case *ast.CallExpr:
		// RE.MatchString(*c.F)
		if s, ok := x.Fun.(*ast.SelectorExpr); ok && s.Sel.Name == "MatchString" && len(x.Args) == 1 && g.isDeref(x.Args[0]) {
			if id, ok := s.X.(*ast.Ident); ok {
				if l, ok := getterRegexes[id.Name]; ok {
					return "(" + l + " v)"
				}
			}
		}
	}
	return g.bad("condition", e)
}

// errMask: the sentinel class of an error expression (a sentinel, or fmt.Errorf("%w…", sentinel, …))
func (g *gtr) errMask(e ast.Expr) (int, bool) {
	switch x := e.(type) {
	case *ast.Ident:
		m, ok := sentinelMask[x.Name]
		return m, ok
	case *ast.CallExpr:
		if selString(x.Fun) == "fmt.Errorf" && len(x.Args) >= 2 {
			if lit, ok := x.Args[0].(*ast.BasicLit); ok && strings.Count(lit.Value, "%w") == 1 && strings.HasPrefix(strings.Trim(lit.Value, "\"`"), "%w") {
				if id, ok := x.Args[1].(*ast.Ident); ok {
					m, ok := sentinelMask[id.Name]
					return m, ok
				}
			}
		}
	}
	return 0, false
}

func (g *gtr) ctor(ft *ast.FuncType) string {
	if ft.Results == nil || len(ft.Results.List) != 2 {
		return ""
	}
	switch exprString(ft.Results.List[0].Type) {
	case "int32":
		return ".int"
	case "uint16":
		return ".nat"
	case "[]byte":
		return ".bytes"
	case "string":
		return ".text"
	}
	return ""
}

// stmts translates the statements after the nil test; `v` is the dereferenced field.
func (g *gtr) stmts(ss []ast.Stmt, ctor, indent string) string {
	if len(ss) == 0 {
		return indent + g.bad("control reaches end of getter", nil)
	}
	s, rest := ss[0], ss[1:]
	switch x := s.(type) {
	case *ast.ReturnStmt:
		if len(x.Results) == 2 && g.isDeref(x.Results[0]) && selString(x.Results[1]) == "nil" {
			conv := "v"
			if ctor == ".int" {
				conv = "v"
			}
			return indent + ".ok (" + ctor + " " + conv + ")"
		}
		if len(x.Results) == 2 {
			if m, ok := g.errMask(x.Results[1]); ok {
				return fmt.Sprintf("%s.err %d", indent, m)
			}
		}
		return indent + g.bad("return form", s)
	case *ast.AssignStmt:
		// l := len(*c.F)
		if x.Tok == token.DEFINE && len(x.Lhs) == 1 && len(x.Rhs) == 1 {
			if id, ok := x.Lhs[0].(*ast.Ident); ok {
				g.local[id.Name] = true
				return fmt.Sprintf("%slet %s := %s\n%s", indent, id.Name, g.intExpr(x.Rhs[0]), g.stmts(rest, ctor, indent))
			}
		}
		return indent + g.bad("assignment form", s)
	case *ast.IfStmt:
		if x.Else != nil {
			return indent + g.bad("else in getter", s)
		}
		// if err := ValidateX(*c.F); err != nil { return Z, err }
		if x.Init != nil {
			as, ok := x.Init.(*ast.AssignStmt)
			if ok && as.Tok == token.DEFINE && len(as.Lhs) == 1 && len(as.Rhs) == 1 && selString(as.Lhs[0]) == "err" {
				if c, ok := as.Rhs[0].(*ast.CallExpr); ok && len(c.Args) == 1 && g.isDeref(c.Args[0]) {
					if id, ok := c.Fun.(*ast.Ident); ok {
						if lean, ok := getterCallees[id.Name]; ok {
							be, okc := x.Cond.(*ast.BinaryExpr)
							if okc && be.Op == token.NEQ && selString(be.X) == "err" && selString(be.Y) == "nil" && len(x.Body.List) == 1 {
								if r, ok := x.Body.List[0].(*ast.ReturnStmt); ok && len(r.Results) == 2 && selString(r.Results[1]) == "err" {
									return fmt.Sprintf("%s(%s v).bind fun _ =>\n%s", indent, lean, g.stmts(rest, ctor, indent))
								}
							}
						}
					}
				}
			}
			// if l := len(*c.F); cond {…}
			if ok && as.Tok == token.DEFINE && len(as.Lhs) == 1 && len(as.Rhs) == 1 {
				plain := *x
				plain.Init = nil
				return g.stmts(append([]ast.Stmt{as, &plain}, rest...), ctor, indent)
			}
			return indent + g.bad("if with init in getter", s)
		}
		thenS := g.stmts(x.Body.List, ctor, indent+"  ")
		return fmt.Sprintf("%sif %s then\n%s\n%selse\n%s", indent, g.cond(x.Cond), thenS, indent, g.stmts(rest, ctor, indent+"  "))
	}
	return indent + g.bad(fmt.Sprintf("statement %T in getter", s), s)
}

func leanFieldType(ctor string) string {
	switch ctor {
	case ".int":
		return "Int"
	case ".nat":
		return "Nat"
	}
	return "Bytes"
}

func translateGetter(p *pkgInfo, spec getterSpec) (string, []string) {
	fd := p.findFunc(spec.recv + "." + spec.name)
	g := &gtr{p: p, spec: spec, local: map[string]bool{}}
	if fd == nil || fd.Recv == nil || len(fd.Recv.List) != 1 || len(fd.Recv.List[0].Names) != 1 {
		return fmt.Sprintf("def %s : Unit := (unsupported_go_construct \"getter %s.%s not found\")\n", spec.lean, spec.recv, spec.name), []string{"not found"}
	}
	g.recv = fd.Recv.List[0].Names[0].Name
	ctor := g.ctor(fd.Type)
	if ctor == "" {
		return fmt.Sprintf("def %s : Unit := (unsupported_go_construct \"result type of %s.%s\")\n", spec.lean, spec.recv, spec.name), []string{"result type"}
	}
	// the getter touches its receiver through the one field only
	otherUse := false
	ast.Inspect(fd.Body, func(n ast.Node) bool {
		if s, ok := n.(*ast.SelectorExpr); ok {
			if id, ok := s.X.(*ast.Ident); ok && id.Name == g.recv && s.Sel.Name != spec.field {
				otherUse = true
			}
		}
		return true
	})
	body := fd.Body.List
	var out strings.Builder
	fmt.Fprintf(&out, "/-- translated from Go `%s.%s` (a function of the field `%s`) -/\n", spec.recv, spec.name, spec.field)
	fmt.Fprintf(&out, "def %s (f : Option %s) : Outcome Model.Val :=\n", spec.lean, leanFieldType(ctor))
	if otherUse {
		out.WriteString("  " + g.bad("getter reads another receiver field", fd) + "\n")
		return out.String(), g.errs
	}
	// first statement: if c.F == nil { return Z, SENTINEL }
	if len(body) == 0 {
		out.WriteString("  " + g.bad("empty getter", fd) + "\n")
		return out.String(), g.errs
	}
	// an optional leading alias: v := c.F
	if as, ok := body[0].(*ast.AssignStmt); ok && as.Tok == token.DEFINE && len(as.Lhs) == 1 && len(as.Rhs) == 1 && g.isField(as.Rhs[0]) && len(body) > 1 {
		if id, ok := as.Lhs[0].(*ast.Ident); ok {
			g.alias = id.Name
			body = body[1:]
		}
	}
	first, ok := body[0].(*ast.IfStmt)
	mask, okm := 0, false
	if ok && first.Init == nil && first.Else == nil && len(first.Body.List) == 1 {
		if be, ok := first.Cond.(*ast.BinaryExpr); ok && be.Op == token.EQL && g.isField(be.X) && selString(be.Y) == "nil" {
			if r, ok := first.Body.List[0].(*ast.ReturnStmt); ok && len(r.Results) == 2 {
				mask, okm = g.errMask(r.Results[1])
			}
		}
	}
	if !okm {
		out.WriteString("  " + g.bad("getter does not start with the nil test", fd) + "\n")
		return out.String(), g.errs
	}
	fmt.Fprintf(&out, "  match f with\n  | none => .err %d\n  | some v =>\n%s\n", mask, g.stmts(body[1:], ctor, "    "))
	return out.String(), g.errs
}

func genGetters(root *pkgInfo) string {
	var b strings.Builder
	b.WriteString("-- GENERATED by /verif/extract from /repo — do not edit; rewritten on every run.\n")
	b.WriteString("import Psa.Model.Claims\nnamespace Psa.Generated\nopen Psa\nset_option linter.unusedVariables false\n\n")
	for _, s := range getterSpecs {
		txt, _ := translateGetter(root, s)
		b.WriteString(txt)
		b.WriteString("\n")
	}
	b.WriteString(genSetters(root))
	b.WriteString("end Psa.Generated\n")
	return b.String()
}

// ---- setters: validations on the parameter, then <recv>.<Field> = &param, then return nil ----

type setterSpec struct {
	recv, name, lean, field string
}

var setterSpecs = []setterSpec{
	{"P1Claims", "SetClientID", "p1SetClientID", "ClientID"},
	{"P1Claims", "SetSecurityLifeCycle", "p1SetSecurityLifeCycle", "SecurityLifeCycle"},
	{"P1Claims", "SetImplID", "p1SetImplID", "ImplID"},
	{"P1Claims", "SetBootSeed", "p1SetBootSeed", "BootSeed"},
	{"P1Claims", "SetCertificationReference", "p1SetCertificationReference", "CertificationReference"},
	{"P1Claims", "SetNonce", "p1SetNonce", "Nonce"},
	{"P1Claims", "SetInstID", "p1SetInstID", "InstID"},
	{"P1Claims", "SetVSI", "p1SetVSI", "VSI"},
	{"P2Claims", "SetClientID", "p2SetClientID", "ClientID"},
	{"P2Claims", "SetSecurityLifeCycle", "p2SetSecurityLifeCycle", "SecurityLifeCycle"},
	{"P2Claims", "SetImplID", "p2SetImplID", "ImplID"},
	{"P2Claims", "SetBootSeed", "p2SetBootSeed", "BootSeed"},
	{"P2Claims", "SetCertificationReference", "p2SetCertificationReference", "CertificationReference"},
	{"P2Claims", "SetVSI", "p2SetVSI", "VSI"},
	{"SwComponent", "SetMeasurementValue", "compSetMeasurementValue", "MeasurementValue"},
	{"SwComponent", "SetSignerID", "compSetSignerID", "SignerID"},
	{"SwComponent", "SetMeasurementType", "compSetMeasurementType", "MeasurementType"},
	{"SwComponent", "SetVersion", "compSetVersion", "Version"},
	{"SwComponent", "SetMeasurementDesc", "compSetMeasurementDesc", "MeasurementDesc"},
}

// translateSetter: `def <lean> (v : T) : Outcome Unit` = the verdict of the setter on the value v; `.ok ()` means: the
// one statement that follows the validations is `<recv>.<field> = &v` (checked here), nothing else is assigned.
func translateSetter(p *pkgInfo, spec setterSpec) string {
	fd := p.findFunc(spec.recv + "." + spec.name)
	g := &gtr{p: p, spec: getterSpec{recv: spec.recv, name: spec.name, lean: spec.lean, field: spec.field}, local: map[string]bool{}}
	head := fmt.Sprintf("/-- translated from Go `%s.%s`: the verdict on the value; on `.ok` the field `%s` (and nothing else) is assigned the value -/\n", spec.recv, spec.name, spec.field)
	if fd == nil || fd.Recv == nil || len(fd.Recv.List) != 1 || len(fd.Recv.List[0].Names) != 1 || fd.Type.Params == nil || len(fd.Type.Params.List) != 1 || len(fd.Type.Params.List[0].Names) != 1 {
		return head + fmt.Sprintf("def %s : Unit := (unsupported_go_construct \"setter %s.%s: signature\")\n", spec.lean, spec.recv, spec.name)
	}
	g.recv = fd.Recv.List[0].Names[0].Name
	param := fd.Type.Params.List[0].Names[0].Name
	g.alias = "" // the parameter plays the part of the dereferenced field
	ty := ""
	switch exprString(fd.Type.Params.List[0].Type) {
	case "int32":
		ty = "Int"
	case "uint16":
		ty = "Nat"
	case "[]byte", "string":
		ty = "Bytes"
	}
	if ty == "" {
		return head + fmt.Sprintf("def %s : Unit := (unsupported_go_construct \"setter %s.%s: parameter type\")\n", spec.lean, spec.recv, spec.name)
	}
	sg := &setGtr{gtr: g, param: param}
	body := sg.stmts(fd.Body.List, "  ")
	return head + fmt.Sprintf("def %s (v : %s) : Outcome Unit :=\n%s\n", spec.lean, ty, body)
}

type setGtr struct {
	*gtr
	param string
}

// in a setter the value is the parameter itself
func (g *setGtr) isVal(e ast.Expr) bool {
	if p, ok := e.(*ast.ParenExpr); ok {
		return g.isVal(p.X)
	}
	id, ok := e.(*ast.Ident)
	return ok && id.Name == g.param
}

func (g *setGtr) intExpr(e ast.Expr) string {
	switch x := e.(type) {
	case *ast.BasicLit:
		if x.Kind == token.INT {
			return x.Value
		}
	case *ast.Ident:
		if g.local[x.Name] {
			return x.Name
		}
		if c, ok := g.p.constants()[x.Name]; ok && !c.isStr {
			return fmt.Sprint(c.n)
		}
	case *ast.CallExpr:
		if id, ok := x.Fun.(*ast.Ident); ok && id.Name == "len" && len(x.Args) == 1 && g.isVal(x.Args[0]) {
			return "v.length"
		}
	case *ast.ParenExpr:
		return g.intExpr(x.X)
	}
	return g.bad("integer expression", e)
}

func (g *setGtr) cond(e ast.Expr) string {
	switch x := e.(type) {
	case *ast.ParenExpr:
		return "(" + g.cond(x.X) + ")"
	case *ast.UnaryExpr:
		if x.Op == token.NOT {
			return "(!" + g.cond(x.X) + ")"
		}
	case *ast.BinaryExpr:
		switch x.Op {
		case token.LAND:
			return "(" + g.cond(x.X) + " && " + g.cond(x.Y) + ")"
		case token.LOR:
			return "(" + g.cond(x.X) + " || " + g.cond(x.Y) + ")"
		case token.EQL, token.NEQ, token.LSS, token.LEQ, token.GTR, token.GEQ:
			op := map[token.Token]string{token.EQL: "==", token.NEQ: "!=", token.LSS: "<", token.LEQ: "≤", token.GTR: ">", token.GEQ: "≥"}[x.Op]
			if x.Op == token.EQL || x.Op == token.NEQ {
				return "(" + g.intExpr(x.X) + " " + op + " " + g.intExpr(x.Y) + ")"
			}
			return "(decide (" + g.intExpr(x.X) + " " + op + " " + g.intExpr(x.Y) + "))"
		}
	case *ast.CallExpr:
		if s, ok := x.Fun.(*ast.SelectorExpr); ok && s.Sel.Name == "MatchString" && len(x.Args) == 1 && g.isVal(x.Args[0]) {
			if id, ok := s.X.(*ast.Ident); ok {
				if l, ok := getterRegexes[id.Name]; ok {
					return "(" + l + " v)"
				}
			}
		}
	}
	return g.bad("condition", e)
}

func (g *setGtr) stmts(ss []ast.Stmt, indent string) string {
	if len(ss) == 0 {
		return indent + g.bad("control reaches end of setter", nil)
	}
	s, rest := ss[0], ss[1:]
	switch x := s.(type) {
	case *ast.ReturnStmt:
		if len(x.Results) == 1 {
			if m, ok := g.errMask(x.Results[0]); ok {
				return fmt.Sprintf("%s.err %d", indent, m)
			}
		}
		return indent + g.bad("return form in setter", s)
	case *ast.AssignStmt:
		// l := len(v)
		if x.Tok == token.DEFINE && len(x.Lhs) == 1 && len(x.Rhs) == 1 {
			if id, ok := x.Lhs[0].(*ast.Ident); ok {
				g.local[id.Name] = true
				return fmt.Sprintf("%slet %s := %s\n%s", indent, id.Name, g.intExpr(x.Rhs[0]), g.stmts(rest, indent))
			}
		}
		// the assignment: <recv>.<Field> = &v, followed by `return nil` and nothing else
		if x.Tok == token.ASSIGN && len(x.Lhs) == 1 && len(x.Rhs) == 1 && g.gtr.isField(x.Lhs[0]) {
			if u, ok := x.Rhs[0].(*ast.UnaryExpr); ok && u.Op == token.AND && g.isVal(u.X) && len(rest) == 1 {
				if r, ok := rest[0].(*ast.ReturnStmt); ok && len(r.Results) == 1 && selString(r.Results[0]) == "nil" {
					return indent + ".ok ()"
				}
			}
		}
		return indent + g.bad("assignment form in setter", s)
	case *ast.IfStmt:
		if x.Else != nil {
			return indent + g.bad("else in setter", s)
		}
		if x.Init != nil {
			as, ok := x.Init.(*ast.AssignStmt)
			if ok && as.Tok == token.DEFINE && len(as.Lhs) == 1 && len(as.Rhs) == 1 && selString(as.Lhs[0]) == "err" {
				if c, ok := as.Rhs[0].(*ast.CallExpr); ok && len(c.Args) == 1 && g.isVal(c.Args[0]) {
					if id, ok := c.Fun.(*ast.Ident); ok {
						if lean, ok := getterCallees[id.Name]; ok {
							be, okc := x.Cond.(*ast.BinaryExpr)
							if okc && be.Op == token.NEQ && selString(be.X) == "err" && selString(be.Y) == "nil" && len(x.Body.List) == 1 {
								if r, ok := x.Body.List[0].(*ast.ReturnStmt); ok && len(r.Results) == 1 && selString(r.Results[0]) == "err" {
									return fmt.Sprintf("%s(%s v).bind fun _ =>\n%s", indent, lean, g.stmts(rest, indent))
								}
							}
						}
					}
				}
			}
			if ok && as.Tok == token.DEFINE && len(as.Lhs) == 1 && len(as.Rhs) == 1 {
				plain := *x
				plain.Init = nil
				return g.stmts(append([]ast.Stmt{as, &plain}, rest...), indent)
			}
			return indent + g.bad("if with init in setter", s)
		}
		thenS := g.stmts(x.Body.List, indent+"  ")
		return fmt.Sprintf("%sif %s then\n%s\n%selse\n%s", indent, g.cond(x.Cond), thenS, indent, g.stmts(rest, indent+"  "))
	}
	return indent + g.bad(fmt.Sprintf("statement %T in setter", s), s)
}

func genSetters(root *pkgInfo) string {
	var b strings.Builder
	for _, s := range setterSpecs {
		b.WriteString(translateSetter(root, s))
		b.WriteString("\n")
	}
	return b.String()
}
