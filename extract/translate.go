// T1: translate a handful of small pure Go functions of /repo into Lean 4
// definitions (DESIGN.md §2.1).  Standard library only.
//
// Supported subset: see DESIGN.md.  Anything outside it makes the translator
// emit `unsupported "<what>"`, an identifier that does not exist in Lean, so
// the generated file fails to compile and the tie is reported broken instead
// of being silently wrong.
package main

import (
	"fmt"
	"go/ast"
	"go/token"
	"strconv"
	"strings"
)

type kind int

const (
	kErr    kind = iota // func(...) error                  -> Outcome Unit
	kVal                // func(...) T                      -> plain value
	kTuple3             // func(...) (int, []byte, error)   -> Outcome (Nat × Bytes)
	kHeader             // prefix of ToCBOR up to the loop  -> Bytes
)

type fnSpec struct {
	goName   string // "LifeCycleToState" or "LifeCycleState.IsValid"
	leanName string
	kind     kind
	retLean  string // Lean return type
}

type tr struct {
	fset   *token.FileSet
	consts map[string]constVal // resolved package constants
	types  map[string]string   // local syntactic types: "byte", "int", "bytes", "string"
	fresh  int
	spec   fnSpec
	errs   []string
	known  map[string]string // Go func name -> Lean name, for calls between translated functions
	base   token.Pos
}

type constVal struct {
	isStr bool
	n     int64
	s     string
}

var sentinelMask = map[string]int{
	"ErrMissingOptional": 1, "ErrMissingMandatory": 2, "ErrNotInProfile": 4,
	"ErrWrongProfile": 8, "ErrWrongSyntax": 16,
	"ErrOptionalClaimMissing": 1, "ErrMandatoryClaimMissing": 2, "ErrClaimNotInProfile": 4,
	"ErrOptionalFieldMissing": 1, "ErrMandatoryFieldMissing": 2, "ErrFieldNotInProfile": 4,
}

func (t *tr) unsupported(what string, n ast.Node) string {
	pos := ""
	if n != nil {
		pos = t.fset.Position(n.Pos()).String()
	}
	t.errs = append(t.errs, what+" at "+pos)
	return fmt.Sprintf("(unsupported_go_construct %q)", what+" at "+pos)
}

func (t *tr) site(n ast.Node) string {
	p := t.fset.Position(n.Pos())
	return fmt.Sprintf("%s:%d", t.spec.goName, p.Line-t.fset.Position(t.base).Line)
}

// (sites are line offsets relative to the start of the function, so that edits
// elsewhere in the file do not change the generated text)

func (t *tr) typeOf(e ast.Expr) string {
	switch x := e.(type) {
	case *ast.Ident:
		if ty, ok := t.types[x.Name]; ok {
			return ty
		}
		if _, ok := t.consts[x.Name]; ok {
			return "const"
		}
	case *ast.BasicLit:
		return "const"
	case *ast.CallExpr:
		if id, ok := x.Fun.(*ast.Ident); ok {
			switch id.Name {
			case "byte", "uint8":
				return "byte"
			case "int", "len":
				return "int"
			case "uint16":
				return "uint16"
			case "uint32":
				return "uint32"
			}
		}
	case *ast.IndexExpr:
		if t.typeOf(x.X) == "bytes" {
			return "byte"
		}
	case *ast.ParenExpr:
		return t.typeOf(x.X)
	case *ast.BinaryExpr:
		a, b := t.typeOf(x.X), t.typeOf(x.Y)
		if a == "const" {
			return b
		}
		return a
	}
	return "?"
}

func width(ty string) (int64, bool) {
	switch ty {
	case "byte":
		return 256, true
	case "uint16":
		return 65536, true
	case "uint32":
		return 4294967296, true
	}
	return 0, false
}

// expr translates a pure expression.  Partial sub-expressions (indexing,
// slicing) are hoisted into `binds` as (name, leanOutcomeExpr).
func (t *tr) expr(e ast.Expr, binds *[][2]string) string {
	switch x := e.(type) {
	case *ast.ParenExpr:
		return "(" + t.expr(x.X, binds) + ")"
	case *ast.BasicLit:
		switch x.Kind {
		case token.INT:
			v, err := strconv.ParseInt(x.Value, 0, 64)
			if err != nil {
				return t.unsupported("int literal", e)
			}
			return strconv.FormatInt(v, 10)
		case token.STRING:
			s, err := strconv.Unquote(x.Value)
			if err != nil {
				return t.unsupported("string literal", e)
			}
			return leanStr(s)
		}
		return t.unsupported("literal", e)
	case *ast.Ident:
		if c, ok := t.consts[x.Name]; ok {
			if c.isStr {
				return leanStr(c.s)
			}
			return fmt.Sprintf("%d /- %s -/", c.n, x.Name)
		}
		switch x.Name {
		case "true", "false":
			return x.Name
		case "nil":
			return "[]"
		}
		if _, ok := t.types[x.Name]; ok {
			return x.Name
		}
		return t.unsupported("identifier "+x.Name, e)
	case *ast.SelectorExpr:
		// math.MaxUint8 etc.
		if p, ok := x.X.(*ast.Ident); ok && p.Name == "math" {
			switch x.Sel.Name {
			case "MaxUint8":
				return "255 /- math.MaxUint8 -/"
			case "MaxUint16":
				return "65535 /- math.MaxUint16 -/"
			case "MaxUint32":
				return "4294967295 /- math.MaxUint32 -/"
			}
		}
		return t.unsupported("selector", e)
	case *ast.UnaryExpr:
		if x.Op == token.NOT {
			return "(!" + t.expr(x.X, binds) + ")"
		}
		return t.unsupported("unary "+x.Op.String(), e)
	case *ast.BinaryExpr:
		switch x.Op {
		case token.LAND, token.LOR:
			var rb [][2]string
			l := t.expr(x.X, binds)
			r := t.expr(x.Y, &rb)
			if len(rb) > 0 {
				return t.unsupported("partial operation on the right of a short-circuit operator", e)
			}
			op := "&&"
			if x.Op == token.LOR {
				op = "||"
			}
			return "(" + l + " " + op + " " + r + ")"
		case token.EQL, token.NEQ, token.LSS, token.LEQ, token.GTR, token.GEQ:
			l := t.expr(x.X, binds)
			r := t.expr(x.Y, binds)
			op := map[token.Token]string{token.EQL: "==", token.NEQ: "!=", token.LSS: "<", token.LEQ: "≤", token.GTR: ">", token.GEQ: "≥"}[x.Op]
			if x.Op == token.EQL || x.Op == token.NEQ {
				return "(" + l + " " + op + " " + r + ")"
			}
			return "(decide (" + l + " " + op + " " + r + "))"
		case token.SUB:
			ty := t.typeOf(x)
			w, ok := width(ty)
			if !ok {
				return t.unsupported("subtraction on type "+ty, e)
			}
			return fmt.Sprintf("((%s + %d - %s) %% %d)", t.expr(x.X, binds), w, t.expr(x.Y, binds), w)
		case token.AND:
			return "(" + t.expr(x.X, binds) + " &&& " + t.expr(x.Y, binds) + ")"
		case token.OR:
			return "(" + t.expr(x.X, binds) + " ||| " + t.expr(x.Y, binds) + ")"
		}
		return t.unsupported("binary "+x.Op.String(), e)
	case *ast.IndexExpr:
		if t.typeOf(x.X) != "bytes" {
			return t.unsupported("index of non-bytes", e)
		}
		t.fresh++
		name := fmt.Sprintf("x%d", t.fresh)
		*binds = append(*binds, [2]string{name, fmt.Sprintf("idx %q %s %s", t.site(e), t.expr(x.X, binds), t.expr(x.Index, binds))})
		return name + ".toNat"
	case *ast.SliceExpr:
		if t.typeOf(x.X) != "bytes" || x.Slice3 {
			return t.unsupported("slice of non-bytes", e)
		}
		t.fresh++
		name := fmt.Sprintf("x%d", t.fresh)
		base := t.expr(x.X, binds)
		switch {
		case x.Low != nil && x.High == nil:
			*binds = append(*binds, [2]string{name, fmt.Sprintf("sliceFrom %q %s %s", t.site(e), base, t.expr(x.Low, binds))})
		case x.Low == nil && x.High != nil:
			*binds = append(*binds, [2]string{name, fmt.Sprintf("sliceTo %q %s %s", t.site(e), base, t.expr(x.High, binds))})
		default:
			return t.unsupported("two-sided slice", e)
		}
		return name
	case *ast.CompositeLit:
		// []byte{a, b}
		if at, ok := x.Type.(*ast.ArrayType); ok && at.Len == nil {
			if id, ok := at.Elt.(*ast.Ident); ok && id.Name == "byte" {
				var parts []string
				for _, el := range x.Elts {
					parts = append(parts, "UInt8.ofNat "+paren(t.expr(el, binds)))
				}
				return "[" + strings.Join(parts, ", ") + "]"
			}
		}
		return t.unsupported("composite literal", e)
	case *ast.CallExpr:
		return t.call(x, binds)
	}
	return t.unsupported(fmt.Sprintf("expression %T", e), e)
}

func paren(s string) string { return "(" + s + ")" }

func (t *tr) call(x *ast.CallExpr, binds *[][2]string) string {
	switch f := x.Fun.(type) {
	case *ast.Ident:
		switch f.Name {
		case "len":
			if len(x.Args) == 1 {
				switch t.typeOf(x.Args[0]) {
				case "bytes":
					return t.expr(x.Args[0], binds) + ".length"
				case "string":
					return t.expr(x.Args[0], binds) + ".utf8ByteSize"
				}
			}
			return t.unsupported("len of unknown type", x)
		case "int":
			return t.expr(x.Args[0], binds)
		case "byte", "uint8":
			return "(" + t.expr(x.Args[0], binds) + " % 256)"
		case "uint16":
			return "(" + t.expr(x.Args[0], binds) + " % 65536)"
		case "uint32":
			return "(" + t.expr(x.Args[0], binds) + " % 4294967296)"
		case "append":
			if t.typeOf(x.Args[0]) != "bytes" || x.Ellipsis != token.NoPos {
				return t.unsupported("append", x)
			}
			var parts []string
			for _, a := range x.Args[1:] {
				parts = append(parts, "UInt8.ofNat "+paren(t.expr(a, binds)))
			}
			return "(" + t.expr(x.Args[0], binds) + " ++ [" + strings.Join(parts, ", ") + "])"
		}
		if ln, ok := t.known[f.Name]; ok {
			var args []string
			for _, a := range x.Args {
				args = append(args, paren(t.expr(a, binds)))
			}
			return "(" + ln + " " + strings.Join(args, " ") + ")"
		}
		return t.unsupported("call "+f.Name, x)
	case *ast.SelectorExpr:
		full := selString(f)
		switch full {
		case "binary.BigEndian.Uint16":
			return "(beNat (" + paren(t.expr(x.Args[0], binds)) + ".take 2))"
		case "binary.BigEndian.Uint32":
			return "(beNat (" + paren(t.expr(x.Args[0], binds)) + ".take 4))"
		case "binary.BigEndian.AppendUint16":
			return "(" + t.expr(x.Args[0], binds) + " ++ beBytes 2 " + paren(t.expr(x.Args[1], binds)) + ")"
		case "binary.BigEndian.AppendUint32":
			return "(" + t.expr(x.Args[0], binds) + " ++ beBytes 4 " + paren(t.expr(x.Args[1], binds)) + ")"
		}
		// method call on a translated receiver: X.IsValid()
		if ln, ok := t.known["."+f.Sel.Name]; ok && len(x.Args) == 0 {
			return "(" + ln + " " + paren(t.expr(f.X, binds)) + ")"
		}
		return t.unsupported("call "+full, x)
	}
	return t.unsupported("call", x)
}

func selString(e ast.Expr) string {
	switch x := e.(type) {
	case *ast.Ident:
		return x.Name
	case *ast.SelectorExpr:
		return selString(x.X) + "." + x.Sel.Name
	}
	return "?"
}

func leanStr(s string) string {
	var b strings.Builder
	b.WriteByte('"')
	for _, r := range s {
		switch {
		case r == '"' || r == '\\':
			b.WriteByte('\\')
			b.WriteRune(r)
		case r == '\n':
			b.WriteString("\\n")
		case r < 32 || r > 126:
			fmt.Fprintf(&b, "\\u{%x}", r)
		default:
			b.WriteRune(r)
		}
	}
	b.WriteByte('"')
	return b.String()
}

// errExpr: what an `error`-typed return expression denotes.
func (t *tr) errExpr(e ast.Expr) (string, bool) {
	switch x := e.(type) {
	case *ast.Ident:
		if x.Name == "nil" {
			return "", true
		}
		if m, ok := sentinelMask[x.Name]; ok {
			return fmt.Sprintf(".err %d", m), false
		}
	case *ast.CallExpr:
		full := selString(x.Fun)
		switch full {
		case "errors.New":
			return ".err 0", false
		case "fmt.Errorf":
			// mask = union of the sentinels passed to %w verbs
			lit, ok := x.Args[0].(*ast.BasicLit)
			if !ok {
				return t.unsupported("Errorf format", x), false
			}
			f, _ := strconv.Unquote(lit.Value)
			mask := 0
			argi := 1
			for i := 0; i < len(f); i++ {
				if f[i] != '%' {
					continue
				}
				i++
				if i < len(f) && f[i] == '%' {
					continue
				}
				// skip flags/width
				for i < len(f) && strings.ContainsRune("+-# 0123456789.", rune(f[i])) {
					i++
				}
				if i >= len(f) || argi >= len(x.Args) {
					break
				}
				if f[i] == 'w' {
					if id, ok := x.Args[argi].(*ast.Ident); ok {
						if m, ok := sentinelMask[id.Name]; ok {
							mask |= m
						} else {
							return t.unsupported("%w of non-sentinel "+id.Name, x), false
						}
					} else {
						return t.unsupported("%w of expression", x), false
					}
				}
				argi++
			}
			return fmt.Sprintf(".err %d", mask), false
		}
	}
	return t.unsupported("error expression", e), false
}

func (t *tr) ret(r *ast.ReturnStmt) string {
	var binds [][2]string
	var body string
	switch t.spec.kind {
	case kErr:
		if len(r.Results) != 1 {
			return t.unsupported("return arity", r)
		}
		// return F(x) where F is a translated error function
		if c, ok := r.Results[0].(*ast.CallExpr); ok {
			if id, ok := c.Fun.(*ast.Ident); ok {
				if _, ok := t.known[id.Name]; ok {
					body = t.call(c, &binds)
					break
				}
			}
		}
		s, isNil := t.errExpr(r.Results[0])
		if isNil {
			body = ".ok ()"
		} else {
			body = s
		}
	case kVal:
		if len(r.Results) != 1 {
			return t.unsupported("return arity", r)
		}
		body = t.expr(r.Results[0], &binds)
	case kTuple3:
		if len(r.Results) != 3 {
			return t.unsupported("return arity", r)
		}
		s, isNil := t.errExpr(r.Results[2])
		if isNil {
			body = ".ok (" + t.expr(r.Results[0], &binds) + ", " + t.expr(r.Results[1], &binds) + ")"
		} else {
			body = s
		}
	case kHeader:
		if len(r.Results) != 2 {
			return t.unsupported("return arity", r)
		}
		if _, isNil := t.errExpr(r.Results[1]); !isNil {
			return t.unsupported("error return in header prefix", r)
		}
		body = t.expr(r.Results[0], &binds)
		if len(binds) > 0 {
			return t.unsupported("partial operation in header prefix", r)
		}
	}
	return t.wrapBinds(binds, body)
}

func (t *tr) wrapBinds(binds [][2]string, body string) string {
	for i := len(binds) - 1; i >= 0; i-- {
		body = fmt.Sprintf("(%s).bind fun %s =>\n%s", binds[i][1], binds[i][0], body)
	}
	return body
}

// stmts translates a statement list followed by the continuation `k`
// (nil = falling off the end, which is unsupported except for kHeader where
// `endExpr` is returned).
func (t *tr) stmts(ss []ast.Stmt, indent string) string {
	if len(ss) == 0 {
		return t.unsupported("control reaches end of function", nil)
	}
	s, rest := ss[0], ss[1:]
	switch x := s.(type) {
	case *ast.ReturnStmt:
		return indent + t.ret(x)
	case *ast.ForStmt, *ast.RangeStmt:
		if t.spec.kind == kHeader {
			return indent + "out"
		}
		return t.unsupported("loop", s)
	case *ast.DeclStmt:
		gd, ok := x.Decl.(*ast.GenDecl)
		if !ok || gd.Tok != token.VAR {
			return t.unsupported("declaration", s)
		}
		out := ""
		for _, sp := range gd.Specs {
			vs := sp.(*ast.ValueSpec)
			if len(vs.Values) != 0 {
				return t.unsupported("var with initialiser", s)
			}
			for _, n := range vs.Names {
				ty, zero := t.declType(vs.Type)
				if ty == "?" {
					return t.unsupported("var type", s)
				}
				t.types[n.Name] = ty
				out += fmt.Sprintf("%slet %s := %s\n", indent, n.Name, zero)
			}
		}
		return out + t.stmts(rest, indent)
	case *ast.AssignStmt:
		if len(x.Lhs) != 1 || len(x.Rhs) != 1 {
			return t.unsupported("multi-assignment", s)
		}
		id, ok := x.Lhs[0].(*ast.Ident)
		if !ok {
			return t.unsupported("assignment target", s)
		}
		var binds [][2]string
		var rhs string
		switch x.Tok {
		case token.DEFINE, token.ASSIGN:
			// special: mapLen := len(o.Keys) in the header prefix is the parameter
			if t.spec.kind == kHeader {
				if c, ok := x.Rhs[0].(*ast.CallExpr); ok {
					if f, ok := c.Fun.(*ast.Ident); ok && f.Name == "len" {
						if selString(c.Args[0]) == "o.Keys" {
							t.types[id.Name] = "int"
							if id.Name != "mapLen" {
								return t.unsupported("header length variable renamed", s)
							}
							return t.stmts(rest, indent)
						}
					}
				}
			}
			rhs = t.expr(x.Rhs[0], &binds)
			if x.Tok == token.DEFINE {
				t.types[id.Name] = t.typeOf(x.Rhs[0])
				if t.types[id.Name] == "?" || t.types[id.Name] == "const" {
					t.types[id.Name] = "int"
				}
			}
		case token.OR_ASSIGN:
			rhs = "(" + id.Name + " ||| " + t.expr(x.Rhs[0], &binds) + ")"
		default:
			return t.unsupported("assignment operator "+x.Tok.String(), s)
		}
		if _, ok := t.types[id.Name]; !ok {
			return t.unsupported("assignment to unknown variable "+id.Name, s)
		}
		body := fmt.Sprintf("%slet %s := %s\n%s", indent, id.Name, rhs, t.stmts(rest, indent))
		return t.wrapBindsStmt(binds, body, indent)
	case *ast.IfStmt:
		return t.ifStmt(x, rest, indent)
	case *ast.SwitchStmt:
		return t.switchStmt(x, rest, indent)
	case *ast.BlockStmt:
		return t.stmts(append(append([]ast.Stmt{}, x.List...), rest...), indent)
	}
	return t.unsupported(fmt.Sprintf("statement %T", s), s)
}

func (t *tr) wrapBindsStmt(binds [][2]string, body, indent string) string {
	for i := len(binds) - 1; i >= 0; i-- {
		body = fmt.Sprintf("%s(%s).bind fun %s =>\n%s", indent, binds[i][1], binds[i][0], body)
	}
	return body
}

func (t *tr) declType(e ast.Expr) (string, string) {
	switch x := e.(type) {
	case *ast.Ident:
		switch x.Name {
		case "int":
			return "int", "0"
		case "byte", "uint8":
			return "byte", "0"
		case "error":
			return "error", "()"
		}
	case *ast.ArrayType:
		if id, ok := x.Elt.(*ast.Ident); ok && x.Len == nil && (id.Name == "byte" || id.Name == "uint8") {
			return "bytes", "([] : Bytes)"
		}
	}
	return "?", ""
}

func (t *tr) ifStmt(x *ast.IfStmt, rest []ast.Stmt, indent string) string {
	// pattern: if err := F(args); err != nil { return err }
	if x.Init != nil {
		as, ok := x.Init.(*ast.AssignStmt)
		if ok && as.Tok == token.DEFINE && len(as.Lhs) == 1 && len(as.Rhs) == 1 && x.Else == nil {
			if id, ok := as.Lhs[0].(*ast.Ident); ok && id.Name == "err" {
				if be, ok := x.Cond.(*ast.BinaryExpr); ok && be.Op == token.NEQ && selString(be.X) == "err" && selString(be.Y) == "nil" {
					if len(x.Body.List) == 1 {
						if r, ok := x.Body.List[0].(*ast.ReturnStmt); ok && t.spec.kind == kErr && len(r.Results) == 1 && selString(r.Results[0]) == "err" {
							var binds [][2]string
							call := t.expr(as.Rhs[0], &binds)
							body := fmt.Sprintf("%smatch %s with\n%s| .ok _ =>\n%s\n%s| .err m => .err m\n%s| .panic s => .panic s",
								indent, call, indent, t.stmts(rest, indent+"  "), indent, indent)
							return t.wrapBindsStmt(binds, body, indent)
						}
					}
				}
			}
		}
		// general form: if v := e; cond { … } — the binding first (its scope is wider in the translation, which is
		// immaterial for straight-line code that does not reuse the name), then the plain if
		if ok && as.Tok == token.DEFINE && len(as.Lhs) == 1 && len(as.Rhs) == 1 {
			if _, isID := as.Lhs[0].(*ast.Ident); isID {
				plain := *x
				plain.Init = nil
				return t.stmts(append([]ast.Stmt{as, &plain}, rest...), indent)
			}
		}
		return t.unsupported("if with init", x)
	}
	var binds [][2]string
	cond := t.expr(x.Cond, &binds)
	saved := t.snapshotTypes()
	thenS := t.stmts(append(append([]ast.Stmt{}, x.Body.List...), rest...), indent+"  ")
	t.types = saved
	var elseS string
	saved = t.snapshotTypes()
	if x.Else != nil {
		elseS = t.stmts(append([]ast.Stmt{x.Else}, rest...), indent+"  ")
	} else {
		elseS = t.stmts(rest, indent+"  ")
	}
	t.types = saved
	body := fmt.Sprintf("%sif %s then\n%s\n%selse\n%s", indent, cond, thenS, indent, elseS)
	return t.wrapBindsStmt(binds, body, indent)
}

func (t *tr) snapshotTypes() map[string]string {
	m := map[string]string{}
	for k, v := range t.types {
		m[k] = v
	}
	return m
}

func (t *tr) switchStmt(x *ast.SwitchStmt, rest []ast.Stmt, indent string) string {
	if x.Init != nil {
		return t.unsupported("switch form", x)
	}
	var binds [][2]string
	tag := ""
	if x.Tag != nil {
		tag = t.expr(x.Tag, &binds)
	}
	var def []ast.Stmt
	hasDef := false
	type cl struct {
		conds []string
		body  []ast.Stmt
	}
	var cls []cl
	for _, c := range x.Body.List {
		cc := c.(*ast.CaseClause)
		for _, s := range cc.Body {
			if b, ok := s.(*ast.BranchStmt); ok {
				_ = b
				return t.unsupported("break/fallthrough in switch", s)
			}
		}
		if cc.List == nil {
			def, hasDef = cc.Body, true
			continue
		}
		var conds []string
		for _, e := range cc.List {
			var b2 [][2]string
			if x.Tag == nil {
				conds = append(conds, "("+t.expr(e, &b2)+")") // tagless switch: the case expressions are the conditions
			} else {
				conds = append(conds, "("+tag+" == "+t.expr(e, &b2)+")")
			}
			if len(b2) > 0 {
				return t.unsupported("partial case expression", e)
			}
		}
		cls = append(cls, cl{conds, cc.Body})
	}
	_ = hasDef
	var gen func(i int, indent string) string
	gen = func(i int, indent string) string {
		if i == len(cls) {
			return t.stmts(append(append([]ast.Stmt{}, def...), rest...), indent)
		}
		saved := t.snapshotTypes()
		th := t.stmts(append(append([]ast.Stmt{}, cls[i].body...), rest...), indent+"  ")
		t.types = saved
		return fmt.Sprintf("%sif %s then\n%s\n%selse\n%s", indent, strings.Join(cls[i].conds, " || "), th, indent, gen(i+1, indent+"  "))
	}
	return t.wrapBindsStmt(binds, gen(0, indent), indent)
}
