// extract: regenerates Psa/Generated/{Funcs,Facts}.lean from /repo's current
// working tree (DESIGN.md §2.1, ties T1 and T2).
//
//	extract -repo /repo -out /verif/lean/Psa/Generated
//
// Files are rewritten only when their content changes, so that an unchanged
// source tree does not trigger a Lean rebuild.
package main

import (
	"bytes"
	"flag"
	"fmt"
	"go/ast"
	"go/parser"
	"go/token"
	"os"
	"path/filepath"
	"sort"
	"strconv"
	"strings"
)

type pkgInfo struct {
	fset  *token.FileSet
	files map[string]*ast.File
	names []string
}

func parseDir(dir string) (*pkgInfo, error) {
	fset := token.NewFileSet()
	ents, err := os.ReadDir(dir)
	if err != nil {
		return nil, err
	}
	pi := &pkgInfo{fset: fset, files: map[string]*ast.File{}}
	for _, e := range ents {
		n := e.Name()
		if e.IsDir() || !strings.HasSuffix(n, ".go") || strings.HasSuffix(n, "_test.go") {
			continue
		}
		src, err := os.ReadFile(filepath.Join(dir, n))
		if err != nil {
			return nil, err
		}
		// files guarded by the verif build tag are instrumentation, not the library
		if bytes.Contains(src, []byte("//go:build verif")) {
			continue
		}
		f, err := parser.ParseFile(fset, filepath.Join(dir, n), src, parser.ParseComments)
		if err != nil {
			return nil, err
		}
		pi.files[n] = f
		pi.names = append(pi.names, n)
	}
	sort.Strings(pi.names)
	return pi, nil
}

func (p *pkgInfo) eachFile(f func(name string, file *ast.File)) {
	for _, n := range p.names {
		f(n, p.files[n])
	}
}

// constants resolves integer / string constants of the package, including iota.
func (p *pkgInfo) constants() map[string]constVal {
	out := map[string]constVal{}
	p.eachFile(func(_ string, file *ast.File) {
		for _, d := range file.Decls {
			gd, ok := d.(*ast.GenDecl)
			if !ok || gd.Tok != token.CONST {
				continue
			}
			var lastExpr ast.Expr
			for iota, sp := range gd.Specs {
				vs := sp.(*ast.ValueSpec)
				for i, n := range vs.Names {
					var e ast.Expr
					if i < len(vs.Values) {
						e = vs.Values[i]
						lastExpr = e
					} else {
						e = lastExpr
					}
					if cv, ok := evalConst(e, iota, out); ok {
						out[n.Name] = cv
					}
				}
			}
		}
	})
	return out
}

func evalConst(e ast.Expr, iota int, env map[string]constVal) (constVal, bool) {
	switch x := e.(type) {
	case *ast.BasicLit:
		switch x.Kind {
		case token.INT:
			v, err := strconv.ParseInt(x.Value, 0, 64)
			return constVal{n: v}, err == nil
		case token.STRING:
			s, err := strconv.Unquote(x.Value)
			return constVal{isStr: true, s: s}, err == nil
		}
	case *ast.Ident:
		if x.Name == "iota" {
			return constVal{n: int64(iota)}, true
		}
		c, ok := env[x.Name]
		return c, ok
	case *ast.ParenExpr:
		return evalConst(x.X, iota, env)
	case *ast.BinaryExpr:
		a, ok1 := evalConst(x.X, iota, env)
		b, ok2 := evalConst(x.Y, iota, env)
		if !ok1 || !ok2 || a.isStr || b.isStr {
			return constVal{}, false
		}
		switch x.Op {
		case token.ADD:
			return constVal{n: a.n + b.n}, true
		case token.SUB:
			return constVal{n: a.n - b.n}, true
		case token.MUL:
			return constVal{n: a.n * b.n}, true
		case token.SHL:
			return constVal{n: a.n << uint(b.n)}, true
		}
	}
	return constVal{}, false
}

func (p *pkgInfo) findFunc(name string) *ast.FuncDecl {
	recv, fn := "", name
	if i := strings.Index(name, "."); i >= 0 {
		recv, fn = name[:i], name[i+1:]
	}
	var found *ast.FuncDecl
	p.eachFile(func(_ string, file *ast.File) {
		for _, d := range file.Decls {
			fd, ok := d.(*ast.FuncDecl)
			if !ok || fd.Name.Name != fn {
				continue
			}
			if recvTypeName(fd) == recv {
				found = fd
			}
		}
	})
	return found
}

func recvTypeName(fd *ast.FuncDecl) string {
	if fd.Recv == nil || len(fd.Recv.List) == 0 {
		return ""
	}
	return baseTypeName(fd.Recv.List[0].Type)
}

func baseTypeName(e ast.Expr) string {
	switch x := e.(type) {
	case *ast.StarExpr:
		return baseTypeName(x.X)
	case *ast.Ident:
		return x.Name
	case *ast.IndexExpr:
		return baseTypeName(x.X)
	case *ast.IndexListExpr:
		return baseTypeName(x.X)
	}
	return "?"
}

func paramType(e ast.Expr) (goTy, leanTy string) {
	switch x := e.(type) {
	case *ast.Ident:
		switch x.Name {
		case "uint16":
			return "uint16", "Nat"
		case "byte", "uint8":
			return "byte", "Nat"
		case "int":
			return "int", "Nat"
		case "string":
			return "string", "String"
		case "LifeCycleState":
			return "uint16", "Nat"
		}
	case *ast.ArrayType:
		if id, ok := x.Elt.(*ast.Ident); ok && x.Len == nil && (id.Name == "byte" || id.Name == "uint8") {
			return "bytes", "Bytes"
		}
	}
	return "?", "?"
}

func translateFunc(p *pkgInfo, consts map[string]constVal, known map[string]string, spec fnSpec) string {
	fd := p.findFunc(spec.goName)
	if fd == nil {
		return fmt.Sprintf("def %s : Unit := (unsupported_go_construct %q)\n", spec.leanName, "function "+spec.goName+" not found")
	}
	t := &tr{fset: p.fset, consts: consts, types: map[string]string{}, spec: spec, known: known, base: fd.Pos()}
	var params []string
	addParam := func(name string, ty ast.Expr) {
		g, l := paramType(ty)
		if g == "?" {
			params = append(params, "("+name+" : "+t.unsupported("parameter type", ty)+")")
			return
		}
		t.types[name] = g
		params = append(params, "("+name+" : "+l+")")
	}
	if spec.kind == kHeader {
		params = append(params, "(mapLen : Nat)")
	} else {
		if fd.Recv != nil {
			for _, f := range fd.Recv.List {
				for _, n := range f.Names {
					addParam(n.Name, f.Type)
				}
			}
		}
		for _, f := range fd.Type.Params.List {
			for _, n := range f.Names {
				addParam(n.Name, f.Type)
			}
		}
	}
	var pre string
	// named results are ordinary variables initialised to their zero value
	if fd.Type.Results != nil {
		for _, f := range fd.Type.Results.List {
			for _, n := range f.Names {
				ty, zero := t.declType(f.Type)
				if ty == "?" {
					pre += "  let " + n.Name + " := " + t.unsupported("named result type", f.Type) + "\n"
					continue
				}
				t.types[n.Name] = ty
				if ty != "error" {
					pre += fmt.Sprintf("  let %s := %s\n", n.Name, zero)
				}
			}
		}
	}
	body := t.stmts(fd.Body.List, "  ")
	var b strings.Builder
	fmt.Fprintf(&b, "/-- translated from Go `%s` -/\n", spec.goName)
	fmt.Fprintf(&b, "def %s %s : %s :=\n%s%s\n", spec.leanName, strings.Join(params, " "), spec.retLean, pre, body)
	return b.String()
}

func writeIfChanged(path string, content []byte) error {
	old, err := os.ReadFile(path)
	if err == nil && bytes.Equal(old, content) {
		return nil
	}
	return os.WriteFile(path, content, 0o644)
}

func main() {
	repo := flag.String("repo", "/repo", "repository root")
	out := flag.String("out", "", "output directory (Psa/Generated)")
	flag.Parse()
	if *out == "" {
		fmt.Fprintln(os.Stderr, "usage: extract -repo DIR -out DIR")
		os.Exit(2)
	}
	root, err := parseDir(*repo)
	if err != nil {
		fmt.Fprintln(os.Stderr, "extract:", err)
		os.Exit(2)
	}
	enc, err := parseDir(filepath.Join(*repo, "encoding"))
	if err != nil {
		fmt.Fprintln(os.Stderr, "extract:", err)
		os.Exit(2)
	}
	funcs := genFuncs(root, enc)
	facts := genFacts(root, enc)
	if err := writeIfChanged(filepath.Join(*out, "Funcs.lean"), []byte(funcs)); err != nil {
		fmt.Fprintln(os.Stderr, "extract:", err)
		os.Exit(2)
	}
	if err := writeIfChanged(filepath.Join(*out, "Facts.lean"), []byte(facts)); err != nil {
		fmt.Fprintln(os.Stderr, "extract:", err)
		os.Exit(2)
	}
	if err := writeIfChanged(filepath.Join(*out, "Getters.lean"), []byte(genGetters(root))); err != nil {
		fmt.Fprintln(os.Stderr, "extract:", err)
		os.Exit(2)
	}
}

func genFuncs(root, enc *pkgInfo) string {
	consts := root.constants()
	var b strings.Builder
	b.WriteString("-- GENERATED by /verif/extract from /repo — do not edit; rewritten on every run.\n")
	b.WriteString("import Psa.Basic\nnamespace Psa.Generated\nopen Psa\nset_option linter.unusedVariables false\n\n")
	known := map[string]string{}
	specs := []fnSpec{
		{"LifeCycleState.IsValid", "stateIsValid", kVal, "Bool"},
		{"LifeCycleState.String", "stateString", kVal, "String"},
		{"LifeCycleToState", "lifeCycleToState", kVal, "Nat"},
		{"ValidateSecurityLifeCycle", "validateSecurityLifeCycle", kErr, "Outcome Unit"},
		{"ValidateImplID", "validateImplID", kErr, "Outcome Unit"},
		{"ValidatePSAHashType", "validatePSAHashType", kErr, "Outcome Unit"},
		{"ValidateInstID", "validateInstID", kErr, "Outcome Unit"},
		{"ValidateVSI", "validateVSI", kErr, "Outcome Unit"},
		{"ValidateNonce", "validateNonce", kErr, "Outcome Unit"},
		{"ValidateHashAlgID", "validateHashAlgID", kErr, "Outcome Unit"},
	}
	for _, s := range specs {
		b.WriteString(translateFunc(root, consts, known, s))
		b.WriteString("\n")
		goFn := s.goName
		if i := strings.Index(goFn, "."); i >= 0 {
			known["."+goFn[i+1:]] = s.leanName
		} else {
			known[goFn] = s.leanName
		}
	}
	econsts := enc.constants()
	eknown := map[string]string{}
	especs := []fnSpec{
		{"processAdditionalInfo", "processAdditionalInfo", kTuple3, "Outcome (Nat × Bytes)"},
		{"structFieldsCBOR.ToCBOR", "toCBORHeader", kHeader, "Bytes"},
	}
	for _, s := range especs {
		b.WriteString(translateFunc(enc, econsts, eknown, s))
		b.WriteString("\n")
	}
	b.WriteString("end Psa.Generated\n")
	return b.String()
}
